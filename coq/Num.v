(** Arithmetic abstraction shared by all numeric models (DESIGN.md 2.1).
    Models are functions of [N : Num]; [NumFloat] is the bit-exact IEEE binary64 instance that the
    correspondence check executes, [NumR] / [NumQ] are exact instances used by exact theorems. *)
From MV Require Import Base.

Record Num := {
  F : Type;
  f0 : F; f1 : F;
  fadd : F -> F -> F; fsub : F -> F -> F; fmul : F -> F -> F; fdiv : F -> F -> F;
  fsqrt : F -> F; fabs : F -> F; fneg : F -> F;
  fleb : F -> F -> bool; fltb : F -> F -> bool; feqb : F -> F -> bool;
  fofZ : Z -> F;
  finf : F
}.

Arguments fadd {n}. Arguments fsub {n}. Arguments fmul {n}. Arguments fdiv {n}.
Arguments fsqrt {n}. Arguments fabs {n}. Arguments fneg {n}.
Arguments fleb {n}. Arguments fltb {n}. Arguments feqb {n}.
Arguments fofZ {n}. Arguments f0 {n}. Arguments f1 {n}. Arguments finf {n}.

Declare Scope num_scope.
Delimit Scope num_scope with num.
Infix "+" := fadd : num_scope.
Infix "-" := fsub : num_scope.
Infix "*" := fmul : num_scope.
Infix "/" := fdiv : num_scope.
Infix "<=?" := fleb : num_scope.
Infix "<?" := fltb : num_scope.

(** Python's [max(a, b)] returns [a] unless [b > a]; [min(a, b)] returns [a] unless [b < a]. *)
Definition pymax {N : Num} (a b : F N) : F N := if fltb a b then b else a.
Definition pymin {N : Num} (a b : F N) : F N := if fltb b a then b else a.

(** order laws needed by monotonicity theorems; satisfied by [R], by [Q], and by IEEE doubles on
    non-NaN values (stated as hypotheses wherever used, never as axioms) *)
Record OrdLaws (N : Num) := {
  leb_refl : forall a : F N, fleb a a = true;
  leb_trans : forall a b c : F N, fleb a b = true -> fleb b c = true -> fleb a c = true;
  leb_total : forall a b : F N, fleb a b = true \/ fleb b a = true;
  ltb_leb : forall a b : F N, fltb a b = negb (fleb b a)
}.
