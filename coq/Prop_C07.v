(** C07 — HDDDM / CDBD alarm exactly when the distance change exceeds the adaptive bound.
    Statements only (proofs: Hdm_Proofs.v).  Models: Hist.v (np.histogram with uniform bins) and Hdm.v
    (HistogramDensityMethod).  Strength of each theorem:
      [structural]  every arithmetic instance [N] and every answer of the oracles, no hypothesis - hence
                    also the bit-exact float model that the correspondence check runs;
      [order-law]   under [OrdLaws N] (a total preorder, < the negation of >=: doubles without NaN)
                    and the hypotheses stated;
      [exact]       on the real numbers ([NumR], numpy's x ** 2 read as x*x, the cast double->intp as the
                    integer part): the statement is about exact arithmetic, the floating-point gap is
                    measured by the direct check (1e-12), never proved away.
    Oracles: [trunc] (C cast inside np.histogram), [sq] (numpy scalar ** 2), [dist] (divergence of two
    histograms; [hellinger sq] for HDDDM), [tppf] (Student t quantile), and the bootstrap estimate
    (an argument of every update).  NOT proved: anything about scipy's jensenshannon (its bound
    sqrt(ln 2), symmetry and identity are checked numerically by the direct check), about t.ppf, or
    about the bootstrap estimate. *)
From MV Require Import Base Num NumLaws Hist Hdm Hdm_Proofs.
From Coq Require Import Permutation Reals.
Local Open Scope Z_scope.

(** ================================================================== np.histogram (Hist.v) *)
Section C07_hist.
Context {N : Num}.
Notation F := (F N).
Variable trunc : F -> Z.

(** [structural] one count per requested bin *)
Theorem C07_hist_length : forall (xs : list F) n lo hi, length (histogram trunc xs n lo hi) = Z.to_nat n.
Proof. exact (hist_length trunc). Qed.

(** [structural] the counts do not depend on the order of the data (reused by C18) *)
Theorem C07_hist_permutation : forall (b b' : list F) n lo hi,
  Permutation b b' -> histogram trunc b n lo hi = histogram trunc b' n lo hi.
Proof. exact (hist_permutation trunc). Qed.

(** [order-law + antisymmetry] neither do the extremes that define the common range.  Antisymmetry
    holds in exact arithmetic; for doubles it fails only for the pair +0 / -0. *)
Theorem C07_minmax_permutation : OrdLaws N ->
  (forall a b : F, fleb a b = true -> fleb b a = true -> a = b) ->
  forall b b' : list F, Permutation b b' -> lmin b = lmin b' /\ lmax b = lmax b'.
Proof. intros L A b b' P. split; [apply (lmin_permutation L A) | apply (lmax_permutation L A)]; exact P. Qed.

(** [order-law] the range [min, max] spans the data *)
Theorem C07_range_spans : OrdLaws N ->
  forall (l : list F) x, In x l -> fleb (lmin l) x = true /\ fleb x (lmax l) = true.
Proof. intros L l x H. split; [apply (lmin_le L) | apply (lmax_ge L)]; exact H. Qed.

(** [order-law] when the range spans the data (every point passes the range filter, is not below the
    first computed edge, and its truncated scaled position lies in [0, n]) every point is counted in
    exactly one bin: the counts add up to the batch size.  The last two hypotheses hold for finite
    doubles by monotonicity of rounding (not proved); over the reals they are discharged below. *)
Theorem C07_hist_counts_sum : OrdLaws N ->
  forall (xs : list F) n lo hi, 1 <= n ->
  (let '(first, last) := outer_edges lo hi in
   forall x, In x xs -> keep first last x = true /\ fleb (edge (linspace first last n) 0) x = true /\
                        0 <= trunc (findex first last n x) <= n) ->
  zsum_l (histogram trunc xs n lo hi) = zlen xs.
Proof. intros L. exact (hist_sum trunc L). Qed.

(** [order-law] numpy's index computation (truncate, clip, correct by the edges) returns the
    declarative bin  edges[s] <= x < edges[s+1]  (last bin closed) whenever the truncated quotient is
    within one of it *)
Theorem C07_bin_is_declarative : OrdLaws N ->
  forall edges (first last : F) n x s, 1 <= n -> 0 <= s < n -> in_bin edges n s x = true ->
  (1 <= s -> fleb (edge edges (s - 1)) (edge edges s) = true) ->
  (let i0 := trunc (findex first last n x) in 0 <= i0 /\ s - 1 <= i0 <= s + 1) ->
  bin_index trunc edges first last n x = s.
Proof. intros L. exact (bin_index_declarative trunc L). Qed.

(** [structural] the last edge is the upper end of the range itself *)
Theorem C07_last_edge : forall (first last : F) n, 0 <= n -> edge (linspace first last n) n = last.
Proof. exact linspace_last. Qed.
End C07_hist.

(** [exact] over the reals the counts add up to the number of points whenever lo <= x <= hi for all of them *)
Theorem C07_hist_counts_sum_R : forall (xs : list R) n (lo hi : R),
  1 <= n -> (forall x, In x xs -> (lo <= x <= hi)%R) -> xs <> [] ->
  zsum_l (@histogram NumR truncR xs n lo hi) = zlen xs.
Proof. exact hist_sum_R. Qed.

(** [exact] hence both histograms HDM builds for a feature - on the common range of reference and
    batch - account for every row *)
Theorem C07_feature_histograms_sum_R : forall bins (ref X : list (list R)) f,
  1 <= bins -> ref <> [] -> X <> [] ->
  let '(rh, th) := @feat_hists NumR truncR bins ref X f in
  zsum_l rh = zlen ref /\ zsum_l th = zlen X.
Proof. exact feat_hists_sum_R. Qed.

(** ================================================================== the Hellinger distance, exact *)
(** [exact] 0 for identical count vectors *)
Theorem C07_hellinger_identical : forall h, hellR h h = 0%R.
Proof. exact hellR_same. Qed.
(** [exact] symmetric in the two histograms *)
Theorem C07_hellinger_symmetric : forall rh th, hellR rh th = hellR th rh.
Proof. exact hellR_sym. Qed.
(** [exact] between 0 and sqrt 2 *)
Theorem C07_hellinger_bound : forall rh th,
  (forall r, In r rh -> 0 <= r) -> (forall t, In t th -> 0 <= t) -> 0 < zsum_l rh -> 0 < zsum_l th ->
  (0 <= hellR rh th <= sqrt 2)%R.
Proof. exact hellR_bound. Qed.
(** [exact] the mean over the features stays within a bound that every feature satisfies *)
Theorem C07_mean_distance_bound : forall (fds : list R) c,
  fds <> [] -> (forall d, In d fds -> (0 <= d <= c)%R) -> (0 <= @mean_dist NumR (zlen fds) fds <= c)%R.
Proof. exact mean_dist_bound. Qed.
(** [exact] the distance HDDDM records for a batch identical to its reference is 0 *)
Theorem C07_distance_identical_batch : forall k bins (ref : list (list R)),
  @mean_dist NumR k (@feat_dists NumR hellR (@all_hists NumR truncR k bins ref ref)) = 0%R.
Proof. exact identical_batch_R. Qed.
(** [exact] reference and batch of the same size: exchanging them leaves the distance unchanged
    (bins = floor(sqrt(reference size)) in both directions) *)
Theorem C07_distance_symmetric_equal_sizes : forall k (ref X : list (list R)),
  zlen ref = zlen X ->
  @mean_dist NumR k (@feat_dists NumR hellR (@all_hists NumR truncR k (Z.sqrt (zlen ref)) ref X)) =
  @mean_dist NumR k (@feat_dists NumR hellR (@all_hists NumR truncR k (Z.sqrt (zlen X)) X ref)).
Proof. exact swapped_batches_R. Qed.

(** ================================================================== the detector (Hdm.v) *)
Section C07.
Context {N : Num}.
Notation F := (F N).
Variable trunc : F -> Z.
Variable sq : F -> F.
Variable dist : list Z -> list Z -> F.
Variable tppf : Z -> F.
Notation core := (hdm_core trunc sq dist tppf).
Notation reset := (hdm_reset trunc sq dist tppf).
Notation update := (hdm_update trunc sq dist tppf).
Notation set_reference := (hdm_set_reference trunc sq dist tppf).
Notation run := (hdm_run trunc sq dist tppf).
Notation trace := (hdm_trace trunc sq dist tppf).
Notation hparams := (@hdm_params N).
Notation hstate := (@hst N).
Notation cur := (c_cur trunc dist).
Notation ce := (c_ce trunc dist).
Notation beta := (c_beta trunc sq dist tppf).

(** [structural] the distance recorded for a batch: per feature the divergence between the histograms
    of the reference column and of the batch column, both built with [_bins] bins over the common
    range [min, max] of the two columns together (same edges); averaged as (1/k) * sum.  It is stored
    as current_distance and in distances[total_batches]. *)
Theorem C07_distance : forall (p : hparams) s X b,
  let s' := core p s X b in
  h_cur s' = Some (cur p s X) /\ h_dists s' = (h_total s + 1, cur p s X) :: h_dists s /\
  cur p s X = mean_dist (h_k p) (map (fun h => dist (fst h) (snd h)) (h_hists s')) /\
  forall f, (f < Z.to_nat (h_k p))%nat ->
    nth f (h_hists s') ([], []) =
    (let c := hcol f (h_ref s) ++ hcol f X in
     (histogram trunc (hcol f (h_ref s)) (h_bins s) (lmin c) (lmax c),
      histogram trunc (hcol f X) (h_bins s) (lmin c) (lmax c))).
Proof.
  intros p s X b. destruct (core_records trunc sq dist tppf p s X b) as (H1 & _ & H3 & H4 & _).
  cbv zeta in *. rewrite H4. repeat split; try assumption.
  intros f Hf. unfold c_hists, all_hists.
  rewrite (nth_indep _ _ (feat_hists trunc (h_bins s) (h_ref s) X 0%nat)) by (rewrite map_length, seq_length; exact Hf).
  rewrite (map_nth (feat_hists trunc (h_bins s) (h_ref s) X)), seq_nth by exact Hf. reflexivity.
Qed.

(** [structural] HDDDM's divergence is the Hellinger distance of the normalised counts *)
Theorem C07_hellinger_definition : forall rh th,
  hellinger sq rh th =
  fsqrt (sum_from0 (map (fun rt => sq (fsub (fsqrt (fdiv (fofZ (snd rt)) (fofZ (zsum_l th))))
                                            (fsqrt (fdiv (fofZ (fst rt)) (fofZ (zsum_l rh))))))
                        (combine rh th))).
Proof. reflexivity. Qed.

(** [structural] epsilon is the absolute change of the distance between consecutive batches of an
    epoch (times 1.0), recorded from the second batch of the epoch on *)
Theorem C07_epsilon : forall (p : hparams) s X1 b1 X2 b2,
  let s1 := core p s X1 b1 in let s2 := core p s1 X2 b2 in
  h_ds s1 <> DDrift -> 1 <= h_since s1 ->
  exists d1 d2, h_cur_now s1 = Some d1 /\ h_cur_now s2 = Some d2 /\
                h_eps_now s2 = Some (fmul (fabs (fsub d2 d1)) f1) /\
                h_epsv s2 = (h_total s2, fmul (fabs (fsub d2 d1)) f1) :: h_epsv s1.
Proof.
  intros p s X1 b1 X2 b2 s1 s2 Hnd Hs. exists (cur p s X1), (cur p s1 X2).
  destruct (core_records trunc sq dist tppf p s X1 b1) as (_ & A2 & _).
  destruct (core_records trunc sq dist tppf p s1 X2 b2) as (_ & B2 & _ & _ & B5 & B6 & _).
  destruct (core_keeps_epoch trunc sq dist tppf p s X1 b1 Hnd) as (_ & _ & _ & P & _).
  cbv zeta in *. fold s1 in A2, P, B2, B5, B6 |- *. fold s2 in B2, B5, B6 |- *.
  replace (2 <=? h_since s1 + 1) with true in B5, B6 by lia.
  assert (Ht : h_total s2 = h_total s1 + 1) by (unfold s2; apply core_total).
  rewrite Ht. unfold c_ce in B5, B6. rewrite P in B5, B6.
  repeat split; assumption.
Qed.
(** ... and no epsilon is recorded on the first batch of an epoch *)
Theorem C07_no_epsilon_on_first_batch : forall (p : hparams) s X b,
  h_since s = 0 -> h_eps_now (core p s X b) = None /\ h_beta_now (core p s X b) = None /\ h_ds (core p s X b) = h_ds s.
Proof.
  intros p s X b H0. destruct (core_records trunc sq dist tppf p s X b) as (_ & _ & _ & _ & B5 & _ & B7 & _).
  cbv zeta in *. rewrite B5, B7, core_ds, H0. unfold c_drift. rewrite has_beta_gate. unfold c_since, gate. rewrite H0.
  destruct (h_db p =? 3); simpl; auto.
Qed.

(** [structural] the threshold, for both statistics, in the code's evaluation order: with
    eps = the epoch's epsilon list after this batch's entries were appended (the bootstrap estimate on
    the second batch when detect_batch <> 3; on the third batch its head - the bootstrap estimate - is
    dropped and subtracted from the running total), d = 1 on that second batch and total - lambda - 1
    otherwise, total' = total_epsilon + eps[-2]:
       epsilon_hat = (1/d) * total'
       sigma = sqrt ((sum_{e in eps[:-1]} sq (e - epsilon_hat)) / d)
       beta = epsilon_hat + t.ppf(1 - sig/2, reference_n + test_n - 2) * (sigma / sqrt d)   (tstat)
            = epsilon_hat + significance * sigma                                            (stdev) *)
Theorem C07_beta_formula : forall (p : hparams) s X b,
  let since := h_since s + 1 in
  let eps := c_eps_b trunc dist p s X b in
  let eps1 := thr_eps p since eps in
  let d := thr_d p since (h_total s + 1 - h_lambda s) in
  let eh := thr_mean d (thr_tot p since eps (h_tot s)) in
  let sd := thr_sd sq d eps1 eh in
  beta p s X b =
  (if h_tstat p then fadd eh (fmul (tppf (h_ref_n s + zlen X - 2)) (fdiv sd (fsqrt (fofZ d))))
   else fadd eh (fmul (h_sig p) sd)) /\
  (gate p since = true ->
     h_beta_now (core p s X b) = Some (beta p s X b) /\ h_beta (core p s X b) = Some (beta p s X b) /\
     h_thr (core p s X b) = (h_total s + 1, beta p s X b) :: h_thr s /\
     h_eps (core p s X b) = eps1 /\ h_tot (core p s X b) = thr_tot p since eps (h_tot s)).
Proof.
  intros p s X b. cbv zeta. split.
  - unfold c_beta, c_at. rewrite adaptive_threshold_spec. reflexivity.
  - intros Hg. destruct (core_records trunc sq dist tppf p s X b) as (_ & _ & _ & _ & _ & _ & B7 & B8 & B9 & _).
    cbv zeta in *. rewrite Hg in B7, B8, B9. repeat split; try assumption.
    + rewrite core_eq. cbv zeta. cbn [h_eps]. rewrite has_beta_gate. unfold c_since. rewrite Hg.
      unfold c_at. rewrite adaptive_threshold_spec. reflexivity.
    + rewrite core_eq. cbv zeta. cbn [h_tot]. rewrite has_beta_gate. unfold c_since. rewrite Hg.
      unfold c_at. rewrite adaptive_threshold_spec. reflexivity.
Qed.

(** [structural] invariants of every state reachable from a new detector by set_reference / update
    calls: counters, the length of the epsilon list (since - 1 entries, 2 on the bootstrap batch),
    total_batches - _lambda = batches_since_reset and reference_n = len(reference),
    _bins = floor(sqrt(reference_n)) outside drift; at a drift _lambda = total_batches; with a single
    feature feature_info is absent *)
Theorem C07_reachable_invariants : forall (p : hparams) ops, hinv p (run p hdm_init ops).
Proof. intros p ops. apply hinv_run, hinv_init. Qed.
(** ... so that the denominator d of the threshold is batches_since_reset - 1 *)
Theorem C07_threshold_denominator : forall (p : hparams) s, hinv p s -> h_ds s <> DDrift ->
  thr_d p (h_since s + 1) (h_total s + 1 - h_lambda s) = if boot_phase p (h_since s + 1) then 1 else h_since s.
Proof. exact dscale_since. Qed.

(** [structural] the decision: drift exactly when the threshold is due - from the detect_batch-th test
    batch of the epoch on (detect_batch = 1 counts the proxy batch) - and epsilon exceeds it *)
Theorem C07_drift_iff : forall (p : hparams) s X b, h_ds s <> DDrift ->
  (h_ds (core p s X b) = DDrift <-> gate p (h_since s + 1) = true /\ fltb (beta p s X b) (ce p s X) = true).
Proof. exact (core_drift_iff trunc sq dist tppf). Qed.

(** [structural] no drift: the batch is appended to the reference, reference_n grows by the batch
    size, the bin count follows, and the distance becomes the previous distance *)
Theorem C07_no_drift_appends : forall (p : hparams) s X b, h_ds (core p s X b) <> DDrift ->
  let s' := core p s X b in
  h_ref s' = h_ref s ++ X /\ h_ref_n s' = zlen (h_ref s) + zlen X /\ h_bins s' = Z.sqrt (h_ref_n s') /\
  h_prev s' = cur p s X /\ h_prev_fd s' = c_fds trunc dist p s X /\ h_lambda s' = h_lambda s /\ h_ds s' = h_ds s.
Proof. exact (core_keeps_epoch trunc sq dist tppf). Qed.

(** [structural] drift: the batch replaces the reference and _lambda becomes its index;
    reference_n / _bins keep their old values until the next update, whose reset() restarts the
    statistics: empty epsilon list, zero running total, reference_n = size of the drifted batch
    (detect_batch = 1: the batch is split in halves and the second half is processed as a batch of
    its own, after which the reference is the whole batch again) *)
Theorem C07_drift_replaces : forall (p : hparams) s X b, c_drift trunc sq dist tppf p s X b = true ->
  let s' := core p s X b in
  (h_ds s' = DDrift /\ h_ref s' = X /\ h_ref_n s' = h_ref_n s /\ h_bins s' = h_bins s /\ h_lambda s' = h_total s') /\
  let r := reset p s' in
  h_ds r = DNone /\ h_ref r = X /\ h_ref_n r = zlen X /\ h_bins r = Z.sqrt (zlen X) /\
  h_eps r = [] /\ h_tot r = f0 /\
  h_total r = h_total s' + (if h_db p =? 1 then 1 else 0) /\ h_since r = (if h_db p =? 1 then 1 else 0).
Proof.
  intros p s X b Hd. cbv zeta.
  destruct (core_starts_epoch trunc sq dist tppf p s X b Hd) as (A1 & A2 & A3 & A4 & A5 & _). cbv zeta in *.
  split; [repeat split; assumption|].
  destruct (reset_fields trunc sq dist tppf p (core p s X b)) as (R1 & R2 & R3 & R4 & R5 & R6 & _ & R8 & R9).
  cbv zeta in *. rewrite A2 in R2, R3, R4. repeat split; assumption.
Qed.

(** [structural] feature_epsilons is assigned from the second batch of an epoch on - the per-feature
    differences to the previous batch of the same epoch - and otherwise the attribute is left unchanged;
    feature_info (several features, on drift) holds these differences, the per-feature distances, and
    feature_epsilons.index(max(feature_epsilons)); with one feature it is left alone *)
Theorem C07_feature_epsilons : forall (p : hparams) s X b,
  h_feps (core p s X b) =
  (if 2 <=? h_since s + 1 then Some (zip_sub (c_fds trunc dist p s X) (h_prev_fd s)) else h_feps s).
Proof.
  intros p s X b. destruct (core_records trunc sq dist tppf p s X b) as (_ & _ & _ & _ & _ & _ & _ & _ & _ & B10).
  cbv zeta in B10. rewrite B10. destruct (1 <? h_since s + 1) eqn:E1; destruct (2 <=? h_since s + 1) eqn:E2; try reflexivity; lia.
Qed.
Theorem C07_feature_info : forall (p : hparams) s X b,
  c_drift trunc sq dist tppf p s X b = true ->
  h_finfo (core p s X b) =
  (if 1 <? h_k p
   then (let fe := zip_sub (c_fds trunc dist p s X) (h_prev_fd s) in Some (fe, c_fds trunc dist p s X, argmax_first fe))
   else h_finfo s) /\
  h_feps (core p s X b) = Some (zip_sub (c_fds trunc dist p s X) (h_prev_fd s)).
Proof. exact (core_feature_info trunc sq dist tppf). Qed.
(** [order-law] ... and that index names the first feature whose difference is maximal *)
Theorem C07_feature_info_argmax : OrdLaws N ->
  (forall a : F, feqb a a = true) -> (forall a b : F, feqb a b = true -> fleb b a = true) ->
  forall l : list F, l <> [] ->
  let i := argmax_first l in
  0 <= i < zlen l /\ (forall y, In y l -> fleb y (nth (Z.to_nat i) l f0) = true) /\
  (forall j, 0 <= j < i -> feqb (nth (Z.to_nat j) l f0) (pymax_list l) = false).
Proof. exact argmax_first_spec. Qed.

(** ------------------------------------------------------------------ lifecycle facts (for C01) *)
(** [structural] total_batches counts every processed batch including the proxy batch of
    detect_batch = 1 (one more on the update after a drift, one on an accepted set_reference) *)
Theorem C07_lifecycle_total : forall (p : hparams) s X b Y,
  h_total (update p s X b) = h_total s + (if is_drift (h_ds s) && (h_db p =? 1) then 2 else 1) /\
  h_total (set_reference p s Y) =
    h_total s + (if (h_db p =? 1) && negb (zlen Y <? 3) then 1 else 0).
Proof.
  intros p s X b Y. split; [apply update_total|].
  unfold hdm_set_reference. destruct (h_db p =? 1) eqn:E; simpl.
  - destruct (zlen Y <? 3); simpl; [lia|].
    destruct (reset_fields trunc sq dist tppf p (with_reference s Y)) as (_ & _ & _ & _ & _ & _ & _ & R8 & _).
    rewrite R8, E. reflexivity.
  - destruct (reset_fields trunc sq dist tppf p (with_reference s Y)) as (_ & _ & _ & _ & _ & _ & _ & R8 & _).
    rewrite R8, E. simpl. lia.
Qed.
(** [structural] batches_since_reset advances by one, except that on the update after a drift it
    restarts to 1 (2 with detect_batch = 1: the proxy batch counts) with no reset() call by the user *)
Theorem C07_lifecycle_since : forall (p : hparams) s X b,
  h_since (update p s X b) = if is_drift (h_ds s) then (if h_db p =? 1 then 2 else 1) else h_since s + 1.
Proof. exact (update_since trunc sq dist tppf). Qed.
(** [structural] no drift before the detect_batch-th test batch of an epoch: a reported drift has
    batches_since_reset >= 3 for detect_batch = 3 and >= 2 otherwise (for detect_batch = 1 the
    second counted batch is the first test batch) *)
Theorem C07_lifecycle_no_early_drift : forall (p : hparams) s X b,
  h_ds (update p s X b) = DDrift ->
  (if h_db p =? 3 then 3 else 2) <= h_since (update p s X b).
Proof.
  intros p s X b H. pose proof (update_drift_gate trunc sq dist tppf p s X b H) as G. unfold gate in G.
  destruct (h_db p =? 3); lia.
Qed.
(** [structural] the state is never "warning", and 0 <= since <= total, in every reachable state *)
Theorem C07_lifecycle_reachable : forall (p : hparams) ops,
  let s := run p hdm_init ops in h_ds s <> DWarn /\ 0 <= h_since s <= h_total s.
Proof. intros p ops. destruct (hinv_run trunc sq dist tppf p ops hdm_init (hinv_init p)) as (A & B & _). split; assumption. Qed.

(** ------------------------------------------------------------------ clean slate (for C02) *)
(** [structural] after a reported drift, from the next update on, everything the detector reports
    (state, counters, distance, epsilon, threshold, reference_n, reference content, epsilon list,
    running total) is what a new detector given the drifted batch as its reference reports on the same
    later calls and oracle answers, batch indices shifted by the batches seen before - including
    feature_epsilons (read once it has been computed in the current epoch: before that the code leaves
    the attribute at its previous value, which a new detector does not have) and feature_info (read
    while drift is reported).  With detect_batch = 1 the drifted batch must have at least three rows,
    as set_reference requires.  With a single feature feature_info is never assigned: the hypothesis
    says that it is still absent (true of every reachable state, C07_reachable_invariants). *)
Theorem C07_clean_slate_drift : forall (p : hparams) s0 X0 b0 X b ops,
  let s := update p s0 X0 b0 in
  h_ds s0 <> DWarn -> h_ds s = DDrift -> ((h_db p =? 1) && (zlen X0 <? 3)) = false ->
  ((1 <? h_k p) = false -> h_finfo s0 = None) ->
  trace p s (OUpd X b :: ops) =
  map (hshift (h_total s)) (trace p (set_reference p hdm_init X0) (OUpd X b :: ops)).
Proof.
  intros p s0 X0 b0 X b ops s Hw Hd Hok Hfi.
  set (s1 := if is_drift (h_ds s0) then reset p s0 else s0).
  assert (Hs : s = core p s1 X0 b0) by reflexivity.
  assert (H1 : h_ds s1 <> DDrift).
  { unfold s1. destruct (is_drift (h_ds s0)) eqn:E.
    - destruct (reset_fields trunc sq dist tppf p s0) as (R & _). rewrite R. discriminate.
    - destruct (h_ds s0); try discriminate; intros; discriminate. }
  assert (Hc : c_drift trunc sq dist tppf p s1 X0 b0 = true).
  { rewrite Hs, core_ds in Hd. destruct (c_drift trunc sq dist tppf p s1 X0 b0); [reflexivity | contradiction]. }
  destruct (core_starts_epoch trunc sq dist tppf p s1 X0 b0 Hc) as (_ & A2 & _ & _ & A5 & _). cbv zeta in *.
  rewrite <- Hs in A2, A5. rewrite <- A2. apply clean_slate_drift; [exact Hd | exact A5 | rewrite A2; exact Hok|].
  intros Hk. rewrite Hs, core_eq. cbv zeta. cbn [h_finfo]. rewrite Hk, andb_false_r.
  unfold s1. destruct (is_drift (h_ds s0)); [|apply Hfi, Hk].
  destruct (reset_keeps_attrs trunc sq dist tppf p s0) as [R _]. rewrite R. apply Hfi, Hk.
Qed.

(** [structural] an explicit set_reference at any state (accepted: not a < 3-row reference with
    detect_batch = 1) is equivalent to starting a new detector on that reference *)
Theorem C07_clean_slate_set_reference : forall (p : hparams) (s : hstate) Y ops,
  ((h_db p =? 1) && (zlen Y <? 3)) = false -> ((1 <? h_k p) = false -> h_finfo s = None) ->
  hobserve (set_reference p s Y) = hshift (h_total s) (hobserve (set_reference p hdm_init Y)) /\
  trace p (set_reference p s Y) ops = map (hshift (h_total s)) (trace p (set_reference p hdm_init Y) ops).
Proof. intros p s Y ops H H'. exact (clean_slate_set_reference trunc sq dist tppf p s Y ops H H'). Qed.
(** ... and a rejected one changes nothing *)
Theorem C07_set_reference_rejected : forall (p : hparams) (s : hstate) Y,
  h_db p = 1 -> zlen Y < 3 -> set_reference p s Y = s.
Proof. intros p s Y H1 H2. unfold hdm_set_reference. rewrite H1. replace (zlen Y <? 3) with true by lia. reflexivity. Qed.

End C07.

(** [exact] in exact arithmetic the running total is the sum of the epsilon list without its last
    entry in every reachable state, so that the threshold of a reachable state is
      epsilon_hat + t * sigma / sqrt d   or   epsilon_hat + significance * sigma
    with epsilon_hat = (sum E) / d, sigma = sqrt (sum_{e in E} sq (e - epsilon_hat) / d), where E is
    the list of the epoch's epsilons before the current one (on the second batch, detect_batch <> 3:
    the bootstrap estimate alone, with d = 1; afterwards the bootstrap estimate is gone) and
    d = batches_since_reset - 1 *)
Theorem C07_beta_exact_R : forall trunc sq dist tppf (p : @hdm_params NumR) ops X b,
  let s := @hdm_run NumR trunc sq dist tppf p hdm_init ops in
  h_ds s <> DDrift -> gate p (h_since s + 1) = true ->
  let E := removelast (h_eps (@hdm_core NumR trunc sq dist tppf p s X b)) in
  let d := IZR (if boot_phase p (h_since s + 1) then 1 else h_since s) in
  let eh := (1 / d * Rsum E)%R in
  let sd := sqrt (Rsum (map (fun e => sq (e - eh)%R) E) / d) in
  @c_beta NumR trunc sq dist tppf p s X b =
  (if h_tstat p then eh + tppf (h_ref_n s + zlen X - 2)%Z * (sd / sqrt d) else eh + h_sig p * sd)%R.
Proof.
  intros trunc sq dist tppf p ops X b s Hd Hg.
  apply (beta_exact trunc sq dist tppf p s X b); [|exact Hd | exact Hg].
  apply rinv_run, rinv_init.
Qed.

(** ================================================================== non-vacuity *)
From MV Require Import NumFloat Corr_C07.
From Coq Require Import PrimFloat.

(** the hypotheses of [C07_hist_counts_sum] hold on a concrete float histogram *)
Example C07_hist_sum_hypotheses_satisfiable :
  let xs := [0%float; 1%float; 2.5%float; 3%float] in
  (let '(first, last) := @outer_edges NumFloat 0%float 3%float in
   forall x, In x xs -> keep first last x = true /\ fleb (edge (@linspace NumFloat first last 2) 0) x = true /\
                        0 <= ftruncZ (@findex NumFloat first last 2 x) <= 2) /\
  @histogram NumFloat ftruncZ xs 2 0%float 3%float = [2; 2].
Proof.
  split; [|vm_compute; reflexivity].
  assert (E : @outer_edges NumFloat 0%float 3%float = (0%float, 3%float)) by (vm_compute; reflexivity).
  rewrite E. intros x [<-|[<-|[<-|[<-|[]]]]]; vm_compute; repeat split; congruence.
Qed.

(** a run of the float model that reports a drift: the hypotheses of the clean-slate / drift theorems are reachable *)
Definition ex_orc : oracles := mk_orc 0 [] [] [(6, 2%float); (8, 2%float); (10, 2%float)].
Definition ex_p := fparams 3 false 1%float 1.
Definition ex_b (v : float) : list (list float) := [[v]; [PrimFloat.add v 1]; [PrimFloat.add v 1]; [PrimFloat.add v 2]].
Example C07_drift_reachable :
  let s := fold_left (fun s X => f_update ex_orc ex_p s X 0%float)
                     [ex_b 0%float; ex_b 0%float; ex_b 40%float]
                     (f_set_reference ex_orc ex_p (@hdm_init NumFloat) (ex_b 0%float)) in
  h_ds s = DDrift /\ h_since s = 3 /\ h_lambda s = h_total s.
Proof. vm_compute. repeat split; reflexivity. Qed.

Print Assumptions C07_hist_length.
Print Assumptions C07_hist_permutation.
Print Assumptions C07_minmax_permutation.
Print Assumptions C07_range_spans.
Print Assumptions C07_hist_counts_sum.
Print Assumptions C07_bin_is_declarative.
Print Assumptions C07_last_edge.
Print Assumptions C07_hist_counts_sum_R.
Print Assumptions C07_feature_histograms_sum_R.
Print Assumptions C07_hellinger_identical.
Print Assumptions C07_hellinger_symmetric.
Print Assumptions C07_hellinger_bound.
Print Assumptions C07_mean_distance_bound.
Print Assumptions C07_distance_identical_batch.
Print Assumptions C07_distance_symmetric_equal_sizes.
Print Assumptions C07_distance.
Print Assumptions C07_hellinger_definition.
Print Assumptions C07_epsilon.
Print Assumptions C07_no_epsilon_on_first_batch.
Print Assumptions C07_beta_formula.
Print Assumptions C07_reachable_invariants.
Print Assumptions C07_threshold_denominator.
Print Assumptions C07_drift_iff.
Print Assumptions C07_no_drift_appends.
Print Assumptions C07_drift_replaces.
Print Assumptions C07_feature_epsilons.
Print Assumptions C07_feature_info.
Print Assumptions C07_feature_info_argmax.
Print Assumptions C07_lifecycle_total.
Print Assumptions C07_lifecycle_since.
Print Assumptions C07_lifecycle_no_early_drift.
Print Assumptions C07_lifecycle_reachable.
Print Assumptions C07_clean_slate_drift.
Print Assumptions C07_clean_slate_set_reference.
Print Assumptions C07_set_reference_rejected.
Print Assumptions C07_beta_exact_R.
