(** Order / monotonicity laws used by the threshold-monotonicity theorems (C17), and the exact
    real-number instance showing that they are satisfiable.  IEEE doubles satisfy them on non-NaN
    values (monotonicity of correctly rounded operations); that fact is NOT proved here: wherever the
    laws are used they are explicit hypotheses of the theorem. *)
From MV Require Import Base Num.
From Coq Require Import Reals Lra.

Record MonoLaws (N : Num) := {
  ml_ord : OrdLaws N;
  add_mono_r : forall a b c : F N, fleb a b = true -> fleb (fadd c a) (fadd c b) = true;
  mul_mono_nonneg : forall a b s : F N, fleb a b = true -> fleb f0 s = true -> fleb (fmul a s) (fmul b s) = true;
  sqrt_nonneg : forall x : F N, fleb f0 (fsqrt x) = true;
  sub_nonneg : forall a b : F N, fleb a b = true -> fleb f0 (fsub b a) = true;
  mul_pos_neg : forall t m : F N, fltb f0 t = true -> fltb m f0 = true -> fltb (fmul t m) f0 = true
}.

(** the part of the order laws that holds for every IEEE double, NaN included *)
Record TransLaws (N : Num) := {
  tl_le_trans : forall a b c : F N, fleb a b = true -> fleb b c = true -> fleb a c = true;
  tl_lt_le_trans : forall a b c : F N, fltb a b = true -> fleb b c = true -> fltb a c = true;
  tl_le_lt_trans : forall a b c : F N, fleb a b = true -> fltb b c = true -> fltb a c = true
}.

Section Derived.
Context {N : Num}.
Variable L : OrdLaws N.

Lemma fle_trans (a b c : F N) : fleb a b = true -> fleb b c = true -> fleb a c = true.
Proof. apply (leb_trans N L). Qed.

Lemma flt_spec (a b : F N) : fltb a b = true <-> fleb b a = false.
Proof. rewrite (ltb_leb N L). destruct (fleb b a); simpl; split; congruence. Qed.

(** a < b -> b <= c -> a < c   and   a <= b -> b < c -> a < c *)
Lemma flt_le_trans (a b c : F N) : fltb a b = true -> fleb b c = true -> fltb a c = true.
Proof.
  rewrite !flt_spec. intros H1 H2. destruct (fleb c a) eqn:E; [|reflexivity].
  rewrite (fle_trans b c a H2 E) in H1. discriminate.
Qed.
Lemma fle_lt_trans (a b c : F N) : fleb a b = true -> fltb b c = true -> fltb a c = true.
Proof.
  rewrite !flt_spec. intros H1 H2. destruct (fleb c a) eqn:E; [|reflexivity].
  rewrite (fle_trans c a b E H1) in H2. discriminate.
Qed.
Lemma flt_le (a b : F N) : fltb a b = true -> fleb a b = true.
Proof.
  rewrite flt_spec. intros H. destruct (leb_total N L a b) as [H1|H1]; [exact H1 | congruence].
Qed.
Definition TransLaws_of_OrdLaws : TransLaws N :=
  {| tl_le_trans := fle_trans; tl_lt_le_trans := flt_le_trans; tl_le_lt_trans := fle_lt_trans |}.
End Derived.

(** ---------- the real numbers ---------- *)
Definition NumR : Num := {|
  F := R; f0 := 0%R; f1 := 1%R;
  fadd := Rplus; fsub := Rminus; fmul := Rmult; fdiv := Rdiv;
  fsqrt := sqrt; fabs := Rabs; fneg := Ropp;
  fleb := fun a b => if Rle_dec a b then true else false;
  fltb := fun a b => if Rlt_dec a b then true else false;
  feqb := fun a b => if Req_EM_T a b then true else false;
  fofZ := IZR;
  finf := 0%R        (* R has no infinity; no law mentions finf *)
|}.

Lemma Rleb_iff (a b : R) : (if Rle_dec a b then true else false) = true <-> (a <= b)%R.
Proof. destruct (Rle_dec a b); split; intros; try assumption; try reflexivity; try discriminate; contradiction. Qed.
Lemma Rltb_iff (a b : R) : (if Rlt_dec a b then true else false) = true <-> (a < b)%R.
Proof. destruct (Rlt_dec a b); split; intros; try assumption; try reflexivity; try discriminate; contradiction. Qed.

Lemma OrdLawsR : OrdLaws NumR.
Proof.
  constructor; simpl.
  - intros a. apply Rleb_iff. lra.
  - intros a b c. rewrite !Rleb_iff. lra.
  - intros a b. rewrite !Rleb_iff. lra.
  - intros a b. destruct (Rlt_dec a b), (Rle_dec b a); simpl; try reflexivity; lra.
Qed.

Lemma MonoLawsR : MonoLaws NumR.
Proof.
  constructor; simpl.
  - exact OrdLawsR.
  - intros a b c. rewrite !Rleb_iff. lra.
  - intros a b s. rewrite !Rleb_iff. intros H1 H2. apply Rmult_le_compat_r; assumption.
  - intros x. apply Rleb_iff. apply sqrt_pos.
  - intros a b. rewrite !Rleb_iff. lra.
  - intros t m. rewrite !Rltb_iff. intros H1 H2.
    assert (H : (t * m < t * 0)%R) by (apply Rmult_lt_compat_l; assumption). lra.
Qed.
