(** A small model of aliasing between a caller and the detectors / injectors of menelaus.

    Caller objects (ndarrays, DataFrames, lists, dicts) are the cells of a heap: location -> value,
    a value being a list of rows.  A call receives LOCATIONS.  What the library does with them:

      - [validate] (detector.py, _validate_X of StreamingDetector and BatchDetector) returns
        [Copy v] (a new array owned by the detector) or [View l] (an array that shares the memory
        of the caller's object at [l]) by container kind;
      - every storing site of a detector puts a [datum] into the detector state (NNDVI.reference_batch,
        HDDDM/CDBD.reference, kdq-tree _ref_data / ref_data, PCACD windows, the elements of
        CUSUM._stream and PageHinkley._change_scores, MD3.reference_batch_features / reference_batch_target / oracle_data);
      - later outputs are [out : state -> heap -> observation], which DEREFERENCES views: a view
        shows whatever the caller's cell holds at that moment;
      - between calls the caller may overwrite its cells ([EWrite]) and create objects ([EAlloc]);
      - injectors copy the input in _preprocess, work on the copy in place, and return it: the
        result is a fresh location.

    The facts about numpy / pandas memory behaviour and about the code that decide Copy-or-View are
    collected in the record [code]; [current] describes the tree under verification, [pre_S13] the
    tree before commit e5126c7 (validation returned X.values), [pre_md3_fix] the tree before MD3 copied
    the first labelled sample.  The View constructor and the switches are kept so that the old defect and mutants are expressible.  Whether numpy / pandas
    really behave as [code] says is not something Coq can exhibit: harness/c15.py measures it with
    np.shares_memory at every site on every run (claim PARTIAL).

    The numeric behaviour of the detectors (when a drift is reported, what the statistics are) is an
    oracle argument of every model below: C15 is about WHERE data lives, not what is computed.
    No proofs in this file. *)
From MV Require Import Base.
From Coq Require Import Arith.

Definition loc := nat.

(** * Containers *)
Inductive kind :=
| KArrC | KArrF | KArrStrided | KArrReadonly    (* numpy.ndarray: C order, Fortran order, strided view of a larger array, write-protected *)
| KList | KSeries | KScalar                     (* list of lists / list, pandas.Series, python or numpy scalar *)
| KDFOne                                        (* DataFrame held in ONE block: one dtype, consolidated *)
| KDFMixed                                      (* DataFrame with columns of several dtypes *)
| KDFSplit.                                     (* DataFrame of one dtype held in several blocks (columns added one at a time) *)

Inductive container := CArr | CDF | COther.
Definition container_of (k : kind) : container :=
  match k with
  | KArrC | KArrF | KArrStrided | KArrReadonly => CArr
  | KDFOne | KDFMixed | KDFSplit => CDF
  | KList | KSeries | KScalar => COther
  end.
Definition is_df (k : kind) : bool := match container_of k with CDF => true | _ => false end.

(** pandas 3: [DataFrame.values] is a (read-only) view of the block when there is exactly one block,
    a newly built array otherwise *)
Definition values_is_view (k : kind) : bool := match k with KDFOne => true | _ => false end.

(** * The facts that decide Copy-or-View *)
Record code := mkCode {
  df_validate_copies : bool;    (* detector.py: [ary = np.array(X.values)] (true) / [ary = X.values] (false, before S13) *)
  df_ctor_copies : bool;        (* pandas >= 3: [pd.DataFrame(ndarray)] copies the array (true) / wraps it (false) *)
  md3_oracle_copies : bool;     (* md3.py give_oracle_label: [labeled_sample.copy()] is kept (true) /
                                   [self.oracle_data = labeled_sample], the caller's object itself (false, before the fix) *)
  inj_preprocess_copies : bool; (* injector.py _preprocess: [copy = np.copy(data)] (true) / works on data itself (false) *)
  inj_dict_copies : bool        (* label_manipulation.py: works on a copy of class_probabilities (true) / on the caller's dict (false, S14a) *)
}.

(** the tree under verification: every site copies *)
Definition current : code := mkCode true true true true true.
(** before commit e5126c7 (S13): validation returned X.values *)
Definition pre_S13 : code := mkCode false true false true true.
(** before the commit "fix: MD3 stores a copy of the first labeled sample instead of the caller's DataFrame":
    md3.py give_oracle_label did [self.oracle_data = labeled_sample] *)
Definition pre_md3_fix : code := mkCode true true false true true.
Definition repaired : code := current.

(** where the object assigned to an attribute comes from *)
Inductive origin :=
| OValidated            (* the array _validate_X returned, as it is *)
| OFrameOfValidated     (* pd.DataFrame(<that array>, columns=...) *)
| OArg                  (* the caller's object itself *)
| OFresh.               (* a newly allocated object: np.array(..), copy.deepcopy(..), np.vstack, pd.concat, a computed result *)

(** does [_validate_X] hand back memory of the caller's object?
    DataFrame branch: [X.values], copied or not; every other container: [np.array(copy.copy(X))],
    which always allocates (np.array copies by default) *)
Definition validate_is_view (c : code) (k : kind) : bool :=
  is_df k && negb (df_validate_copies c) && values_is_view k.

Definition origin_is_view (c : code) (k : kind) (o : origin) : bool :=
  match o with
  | OValidated => validate_is_view c k
  | OFrameOfValidated => negb (df_ctor_copies c) && validate_is_view c k
  | OArg => true
  | OFresh => false
  end.

Inductive method := MUpdate | MSetReference | MOracle (* MD3.give_oracle_label *).

Fixpoint set_nth {B : Type} (n : nat) (x : B) (l : list B) : list B :=
  match l, n with
  | [], _ => []
  | _ :: t, O => x :: t
  | y :: t, S n' => y :: set_nth n' x t
  end.

(** * Heap *)
Section Heap.
Context {A : Type}.                       (* a cell of a row: a number, a label ... *)

Definition value := list (list A).        (* rows *)
Definition heap := list value.            (* location l = position l; every cell is a caller object *)

Definition read (h : heap) (l : loc) : value := nth l h [].

Fixpoint write (h : heap) (l : loc) (v : value) : heap :=
  match h, l with
  | [], _ => []
  | _ :: t, O => v :: t
  | x :: t, S l' => x :: write t l' v
  end.

Definition alloc (h : heap) (v : value) : loc * heap := (length h, h ++ [v]).

(** * Data held by a detector *)
Inductive datum := Copy (v : value) | View (l : loc).

Definition deref (h : heap) (d : datum) : value :=
  match d with Copy v => v | View l => read h l end.
Definition is_view (d : datum) : bool := match d with View _ => true | Copy _ => false end.

Definition validate (c : code) (k : kind) (h : heap) (l : loc) : datum :=
  if validate_is_view c k then View l else Copy (read h l).

(** * Storing sites *)
Inductive source :=
| SValidated            (* the array _validate_X returned, as it is *)
| SFrameOfValidated     (* pd.DataFrame(<that array>, columns=...) *)
| SArg                  (* the caller's object itself *)
| SFresh (v : value).   (* a newly allocated object holding [v] *)

Definition origin_of (s : source) : origin :=
  match s with
  | SValidated => OValidated
  | SFrameOfValidated => OFrameOfValidated
  | SArg => OArg
  | SFresh _ => OFresh
  end.
Definition source_is_view (c : code) (k : kind) (s : source) : bool := origin_is_view c k (origin_of s).

(** the datum a source denotes in a call on the object at [l]; [x] = the content handed over *)
Definition source_value (x : value) (s : source) : value :=
  match s with SFresh v => v | _ => x end.
Definition source_datum (c : code) (k : kind) (h : heap) (l : loc) (s : source) : datum :=
  if source_is_view c k s then View l else Copy (source_value (read h l) s).

Inductive action :=
| Store (slot : nat) (s : source)     (* self.attr = s *)
| Push (slot : nat) (s : source)      (* self.attr.append(s): a python list keeps the object *)
| Clear (slot : nat)                  (* self.attr = None / [] / np.array([]) *)
| WriteArg (v : value).               (* X[...] = v, in place on the argument.  No site of the library does this;
                                         the constructor exists so that such a mutant is expressible *)

(** a detector, as far as data placement is concerned.  [sites] is the body of a method: it sees the
    pure state, the stored data (dereferenced) and the content of the argument, and answers with the
    new pure state and the assignments to data attributes it performs, in order. *)
Record detector := mkDet {
  pstate : Type;                      (* counters, statistics, drift_state, trees, scalers ... *)
  obs : Type;                         (* drift_state, counters and the detector's public outputs *)
  p_init : pstate;
  nslots : nat;                       (* number of data attributes *)
  accepts : method -> pstate -> value -> bool;        (* validation outcome (C14); a refused call changes nothing *)
  sites : method -> pstate -> list (list value) -> value -> pstate * list action;
  observe : pstate -> list (list value) -> obs
}.

Record state (D : detector) := mkState { st_p : pstate D; st_slots : list (list datum) }.
Arguments st_p {D}. Arguments st_slots {D}.

Definition init (D : detector) : state D := mkState D (p_init D) (repeat [] (nslots D)).

Definition derefs (h : heap) (sl : list (list datum)) : list (list value) := map (map (deref h)) sl.

Definition apply_action (c : code) (k : kind) (l : loc) (sh : list (list datum) * heap) (a : action)
  : list (list datum) * heap :=
  let '(sl, h) := sh in
  match a with
  | Store s src => (set_nth s [source_datum c k h l src] sl, h)
  | Push s src => (set_nth s (nth s sl [] ++ [source_datum c k h l src]) sl, h)
  | Clear s => (set_nth s [] sl, h)
  | WriteArg v => (sl, write h l v)
  end.

(** one call [det.<m>(obj)] where [obj] is the caller's object at [l], a container of kind [k] *)
Definition call (c : code) (D : detector) (st : state D) (h : heap) (m : method) (k : kind) (l : loc)
  : state D * heap :=
  let x := read h l in
  if accepts D m (st_p st) x then
    let '(p', acts) := sites D m (st_p st) (derefs h (st_slots st)) x in
    let '(sl', h') := fold_left (apply_action c k l) acts (st_slots st, h) in
    (mkState D p' sl', h')
  else (st, h).

(** what the detector shows when asked at a moment at which the heap is [h] *)
Definition out (D : detector) (st : state D) (h : heap) : obs D :=
  observe D (st_p st) (derefs h (st_slots st)).

(** * Histories: calls interleaved with what the caller does to its own objects *)
Inductive event :=
| ECall (m : method) (k : kind) (l : loc)
| EWrite (l : loc) (v : value)          (* arr[...] = v, df.iloc[:, :] = v, np.random.shuffle(arr): in place *)
| EAlloc (v : value).                   (* the caller creates an object *)

(** the outputs right after every call *)
Fixpoint trace (c : code) (D : detector) (st : state D) (h : heap) (evs : list event) : list (obs D) :=
  match evs with
  | [] => []
  | ECall m k l :: t => let '(st', h') := call c D st h m k l in out D st' h' :: trace c D st' h' t
  | EWrite l v :: t => trace c D st (write h l v) t
  | EAlloc v :: t => trace c D st (h ++ [v]) t
  end.

Fixpoint final (c : code) (D : detector) (st : state D) (h : heap) (evs : list event) : state D * heap :=
  match evs with
  | [] => (st, h)
  | ECall m k l :: t => let '(st', h') := call c D st h m k l in final c D st' h' t
  | EWrite l v :: t => final c D st (write h l v) t
  | EAlloc v :: t => final c D st (h ++ [v]) t
  end.

(** the caller's heap if the calls did nothing to it *)
Fixpoint caller_heap (h : heap) (evs : list event) : heap :=
  match evs with
  | [] => h
  | ECall _ _ _ :: t => caller_heap h t
  | EWrite l v :: t => caller_heap (write h l v) t
  | EAlloc v :: t => caller_heap (h ++ [v]) t
  end.

(** what was handed over: method and CONTENT of the argument at the moment of each call *)
Fixpoint handed (h : heap) (evs : list event) : list (method * value) :=
  match evs with
  | [] => []
  | ECall m _ l :: t => (m, read h l) :: handed h t
  | EWrite l v :: t => handed (write h l v) t
  | EAlloc v :: t => handed (h ++ [v]) t
  end.

(** the reference semantics: no heap, no locations; the detector owns values *)
Definition pure_apply (x : value) (psl : list (list value)) (a : action) : list (list value) :=
  match a with
  | Store s src => set_nth s [source_value x src] psl
  | Push s src => set_nth s (nth s psl [] ++ [source_value x src]) psl
  | Clear s => set_nth s [] psl
  | WriteArg _ => psl
  end.

Definition pure_call (D : detector) (ps : pstate D * list (list value)) (mx : method * value)
  : pstate D * list (list value) :=
  let '(p, psl) := ps in
  let '(m, x) := mx in
  if accepts D m p x then
    let '(p', acts) := sites D m p psl x in (p', fold_left (pure_apply x) acts psl)
  else (p, psl).

Fixpoint pure_trace (D : detector) (ps : pstate D * list (list value)) (cs : list (method * value))
  : list (obs D) :=
  match cs with
  | [] => []
  | mx :: t => let ps' := pure_call D ps mx in observe D (fst ps') (snd ps') :: pure_trace D ps' t
  end.

Definition pure_init (D : detector) : pstate D * list (list value) := (p_init D, repeat [] (nslots D)).

(** the twin history in which the caller hands over PRIVATE COPIES and never writes: before each
    call it creates a new object holding the current content of the argument and passes that one.
    [h] tracks the original caller heap (to know the contents), [n] is the next free location of the
    twin's heap. *)
Fixpoint privatize (h : heap) (n : nat) (evs : list event) : list event :=
  match evs with
  | [] => []
  | ECall m k l :: t => EAlloc (read h l) :: ECall m k n :: privatize h (S n) t
  | EWrite l v :: t => privatize (write h l v) n t
  | EAlloc v :: t => privatize (h ++ [v]) n t
  end.

(** * Safety of a detector: what its storing sites put into the state *)
Definition action_safe (c : code) (k : kind) (a : action) : bool :=
  match a with
  | Store _ s | Push _ s => negb (source_is_view c k s)
  | Clear _ => true
  | WriteArg _ => false
  end.

(** every action of every call on a container of a kind in [K] stores a copy and writes nothing *)
Definition stores_only_copies (c : code) (K : kind -> bool) (D : detector) : Prop :=
  forall m p sl x k, K k = true -> forallb (action_safe c k) (snd (sites D m p sl x)) = true.

Definition no_view (sl : list (list datum)) : bool := forallb (forallb (fun d => negb (is_view d))) sl.

Definition all_kinds (k : kind) : bool := true.
Definition event_kind_ok (K : kind -> bool) (e : event) : bool :=
  match e with ECall _ k _ => K k | _ => true end.

(** dynamic version: the storing actions executed along THIS run store copies and write nothing *)
Definition call_actions (D : detector) (st : state D) (h : heap) (m : method) (l : loc) : list action :=
  if accepts D m (st_p st) (read h l)
  then snd (sites D m (st_p st) (derefs h (st_slots st)) (read h l)) else [].

Fixpoint clean_run (c : code) (D : detector) (st : state D) (h : heap) (evs : list event) : Prop :=
  match evs with
  | [] => True
  | ECall m k l :: t =>
      forallb (action_safe c k) (call_actions D st h m l) = true /\
      clean_run c D (fst (call c D st h m k l)) (snd (call c D st h m k l)) t
  | EWrite l v :: t => clean_run c D st (write h l v) t
  | EAlloc v :: t => clean_run c D st (h ++ [v]) t
  end.

(** * The storing sites of the library *)
(** Each model takes the numeric behaviour as oracle arguments.  Slot numbers are per detector. *)
Definition one (sl : list (list value)) (s : nat) : value := concat (nth s sl []).

Section Detectors.
Variable c : code.
Variables (P O : Type) (p0 : P).
Variable ok : method -> P -> value -> bool.
Variable show : P -> list (list value) -> O.

(** ** NNDVI (data_drift/nndvi.py).  slot 0 = reference_batch.
    set_reference: [X = validate(X); self.reference_batch = X].
    update: [test_batch = np.array(X)] of the validated X; on drift [self.set_reference(test_batch)],
    which validates (and copies) once more. *)
Variable nndvi_ref : P -> value -> P.
Variable nndvi_upd : P -> value -> value -> bool * P.     (* (drift?, state) from reference and test batch *)
Definition nndvi : detector :=
  mkDet P O p0 1 ok
    (fun m p sl x =>
       match m with
       | MSetReference => (nndvi_ref p x, [Store 0 SValidated])
       | MUpdate => let '(drift, p') := nndvi_upd p (one sl 0) x in
                    (p', if drift then [Store 0 (SFresh x)] else [])
       | MOracle => (p, [])
       end)
    show.

(** ** HDDDM / CDBD (data_drift/histogram_density_method.py).  slot 0 = reference.
    set_reference: [X = pd.DataFrame(validate(X)); self.reference = copy.deepcopy(X)]; reset() then
    slices the detector's own reference (detect_batch = 1: the second half is fed back through
    update as [to_numpy()], i.e. a new array).  [hdm_ref] = the reference after all that.
    update: [X = pd.DataFrame(validate(X), columns=...)]; on drift [self.reference = X] (the adopted
    batch), otherwise [self.reference = pd.concat([self.reference, X])]. *)
Variable hdm_ref : P -> value -> P * value.
Variable hdm_upd : P -> value -> value -> bool * P.
Definition hdm : detector :=
  mkDet P O p0 1 ok
    (fun m p sl x =>
       match m with
       | MSetReference => let '(p', r) := hdm_ref p x in (p', [Store 0 (SFresh r)])
       | MUpdate => let '(drift, p') := hdm_upd p (one sl 0) x in
                    (p', if drift then [Store 0 SFrameOfValidated]
                         else [Store 0 (SFresh (one sl 0 ++ x))])
       | MOracle => (p, [])
       end)
    show.

(** ** KdqTreeStreaming (data_drift/kdq_tree.py).  slot 0 = _ref_data.
    update: [ary = copy.deepcopy(validate(X))]; while the reference window fills
    [_ref_data = np.vstack([_ref_data, ary]) if _ref_data.size else ary]; when full the tree is built
    and [_ref_data = np.array([])]; later samples only fill the tree (counts, a pure state). *)
Inductive kdq_phase := KFill | KFillBuild | KTest.
Variable kdqs_upd : P -> value -> value -> kdq_phase * P.
Definition kdq_streaming : detector :=
  mkDet P O p0 1 ok
    (fun m p sl x =>
       match m with
       | MUpdate => let '(ph, p') := kdqs_upd p (one sl 0) x in
                    (p', match ph with
                         | KFill => [Store 0 (SFresh (one sl 0 ++ x))]
                         | KFillBuild => [Store 0 (SFresh (one sl 0 ++ x)); Clear 0]
                         | KTest => []
                         end)
       | _ => (p, [])
       end)
    show.

(** ** KdqTreeBatch.  slot 0 = _ref_data, slot 1 = ref_data (the batch adopted at a drift).
    set_reference: [ary = copy.deepcopy(validate(X)); _inner_set_reference(ary)] (builds the tree; reset()
    empties _ref_data).  update: after a drift first [set_reference(self.ref_data)] (own data, validated
    and copied again); [ary = copy.deepcopy(validate(X))]; without a tree [_ref_data = ary] then build; with
    a tree, on drift [self.ref_data = ary]. *)
Variable kdqb_ref : P -> value -> P.
Variable kdqb_upd : P -> value -> value -> bool (* first batch: becomes the reference *) * bool (* drift *) * P.
Definition kdq_batch : detector :=
  mkDet P O p0 2 ok
    (fun m p sl x =>
       match m with
       | MSetReference => (kdqb_ref p x, [Clear 0])
       | MUpdate => let '(first, drift, p') := kdqb_upd p (one sl 1) x in
                    (p', if first then [Store 0 (SFresh x); Clear 0]
                         else if drift then [Store 1 (SFresh x)] else [])
       | MOracle => (p, [])
       end)
    show.

(** ** PCACD (data_drift/pca_cd.py).  slot 0 = _reference_window, slot 1 = _test_window.
    Every assignment is the result of pd.concat / pd.DataFrame(scaler.transform(..)) / .copy():
    [pcacd_upd] returns the two windows after the update (new objects in every branch). *)
Variable pcacd_upd : P -> value -> value -> value -> P * value * value.
Definition pcacd : detector :=
  mkDet P O p0 2 ok
    (fun m p sl x =>
       match m with
       | MUpdate => let '(p', r, t) := pcacd_upd p (one sl 0) (one sl 1) x in
                    (p', [Store 0 (SFresh r); Store 1 (SFresh t)])
       | _ => (p, [])
       end)
    show.

(** ** CUSUM (change_detection/cusum.py).  slot 0 = _stream, a python list.
    update: [X = validate(X); self._stream.append(X)]: the list element IS the validated array. *)
Variable cusum_upd : P -> list value -> value -> P.
Definition cusum : detector :=
  mkDet P O p0 1 ok
    (fun m p sl x =>
       match m with
       | MUpdate => (cusum_upd p (nth 0 sl []) x, [Push 0 SValidated])
       | _ => (p, [])
       end)
    show.

(** ** PageHinkley (change_detection/page_hinkley.py).  slot 0 = _change_scores, a python list that
    reset() empties at the update following a drift.
    update: [X = validate(X); ...; self._change_scores.append(X)] (to_dataframe() shows it);
    _mean, _sum, ... are results of arithmetic on X, i.e. new arrays (pure state here). *)
Variable ph_upd : P -> value -> bool (* a drift was pending: reset() runs first *) * P.
Definition page_hinkley : detector :=
  mkDet P O p0 1 ok
    (fun m p sl x =>
       match m with
       | MUpdate => let '(pending, p') := ph_upd p x in
                    (p', (if pending then [Clear 0] else []) ++ [Push 0 SValidated])
       | _ => (p, [])
       end)
    show.

(** ** detectors that keep numbers only: ADWIN (X[0][0]), DDM, EDDM, STEPD, LinearFourRates,
    ADWINAccuracy (y[0] scalars) *)
Variable scalar_upd : P -> value -> P.
Definition scalar_detector : detector :=
  mkDet P O p0 0 ok (fun m p sl x => match m with MUpdate => (scalar_upd p x, []) | _ => (p, []) end) show.

(** ** MD3 (concept_drift/md3.py; no _validate_X: the deprecated base class does not have one).
    slot 0 = reference_batch_features, 1 = reference_batch_target, 2 = oracle_data.
    set_reference: both attributes are [copy.deepcopy(X.loc[:, ...])].
    update: [X.to_numpy()[0]] is used and dropped.
    give_oracle_label: [if self.oracle_data is None: self.oracle_data = labeled_sample.copy()
                        else: self.oracle_data = pd.concat([self.oracle_data, labeled_sample])]
                       (before the fix: [self.oracle_data = labeled_sample], the caller's object, [SArg]);
    when enough rows are there: [self.set_reference(self.oracle_data, ...); self.oracle_data = None]. *)
Variables md3_feat md3_targ : value -> value.
Variable md3_ref : P -> value -> P.
Variable md3_upd : P -> value -> P.
Variable md3_lab : P -> value -> bool (* enough labelled rows: resolve *) * P.
Definition md3 : detector :=
  mkDet P O p0 3 ok
    (fun m p sl x =>
       match m with
       | MSetReference => (md3_ref p x, [Store 0 (SFresh (md3_feat x)); Store 1 (SFresh (md3_targ x))])
       | MUpdate => (md3_upd p x, [])
       | MOracle =>
           let od := one sl 2 in
           let keep := match nth 2 sl [] with
                       | [] => Store 2 (if md3_oracle_copies c then SFresh x else SArg)
                       | _ => Store 2 (SFresh (od ++ x))
                       end in
           let '(full, p') := md3_lab p (od ++ x) in
           (p', keep :: (if full then [Store 0 (SFresh (md3_feat (od ++ x)));
                                       Store 1 (SFresh (md3_targ (od ++ x))); Clear 2]
                         else []))
       end)
    show.
End Detectors.

(** ** Ensembles (ensemble/ensemble.py): update / set_reference forward the SAME object to every
    member (default column selector: [lambda data: data]); the ensemble itself keeps counters and the
    election result only.  Two members; larger ensembles by nesting. *)
Definition shift_action (n : nat) (a : action) : action :=
  match a with
  | Store s src => Store (n + s) src
  | Push s src => Push (n + s) src
  | Clear s => Clear (n + s)
  | WriteArg v => WriteArg v
  end.

Definition ensemble (D1 D2 : detector) (E : Type) (elect : obs D1 -> obs D2 -> E) : detector :=
  mkDet (pstate D1 * pstate D2)%type E (p_init D1, p_init D2) (nslots D1 + nslots D2)
    (fun m p x => true)
    (fun m p sl x =>
       let sl1 := firstn (nslots D1) sl in
       let sl2 := skipn (nslots D1) sl in
       let '(p1, a1) := if accepts D1 m (fst p) x then sites D1 m (fst p) sl1 x else (fst p, []) in
       let '(p2, a2) := if accepts D2 m (snd p) x then sites D2 m (snd p) sl2 x else (snd p, []) in
       ((p1, p2), a1 ++ map (shift_action (nslots D1)) a2))
    (fun p sl => elect (observe D1 (fst p) (firstn (nslots D1) sl)) (observe D2 (snd p) (skipn (nslots D1) sl))).

(** * Injectors (injection/injector.py and the seven subclasses)
    [ret, cols = self._preprocess(data, ...)] ([copy = np.copy(data)], a new object);
    the body assigns into [ret] in place; [return self._postprocess(ret)] hands [ret] back in the
    container type of the input.  Only ndarray and DataFrame are accepted. *)
Definition inject_kind (k : kind) : option kind :=
  match container_of k with
  | CArr => Some KArrC
  | CDF => Some KDFOne          (* pd.DataFrame(ret, columns=self._columns): one block *)
  | COther => None              (* ValueError: Data of type ... not supported *)
  end.

Definition inject (c : code) (f : value -> value) (k : kind) (h : heap) (l : loc)
  : option (loc * kind * heap) :=
  match inject_kind k with
  | None => None
  | Some k' =>
      if inj_preprocess_copies c then
        let '(l', h1) := alloc h (read h l) in
        Some (l', k', write h1 l' (f (read h1 l')))
      else Some (l, k', write h l (f (read h l)))
  end.

(** LabelProbabilityInjector / LabelDirichletInjector take a second object, the dict of class
    probabilities at [ld]; the undefined classes are added to the dict the body works on ([g]) *)
Definition inject_with_dict (c : code) (f : value -> value -> value) (g : value -> value)
  (k : kind) (h : heap) (l ld : loc) : option (loc * kind * heap) :=
  let d' := g (read h ld) in
  let h0 := if inj_dict_copies c then h else write h ld d' in
  inject c (f d') k h0 l.

End Heap.
Arguments st_p {A D}. Arguments st_slots {A D}.

(** * Checkers for the correspondence harness *)
(** the named storing sites the harness can reach and measure *)
Inductive site :=
| SiteNndviRef            (* NNDVI.set_reference -> reference_batch *)
| SiteNndviAdopted        (* NNDVI.update with drift -> reference_batch *)
| SiteHdmRef              (* HDDDM/CDBD.set_reference -> reference *)
| SiteHdmAdopted          (* HDDDM/CDBD.update with drift -> reference *)
| SiteHdmConcat           (* HDDDM/CDBD.update without drift -> reference *)
| SiteKdqStreamRef        (* KdqTreeStreaming.update, filling -> _ref_data *)
| SiteKdqBatchFirst       (* KdqTreeBatch.update without reference -> _ref_data (during the call) / tree *)
| SiteKdqBatchAdopted     (* KdqTreeBatch.update with drift -> ref_data *)
| SitePcacdRef | SitePcacdTest    (* PCACD.update -> _reference_window / _test_window *)
| SiteCusumStream         (* CUSUM.update -> _stream[-1] *)
| SitePhScores            (* PageHinkley.update -> _change_scores[-1] *)
| SiteMd3Features | SiteMd3Target (* MD3.set_reference *)
| SiteMd3OracleFirst      (* MD3.give_oracle_label, first labelled row -> oracle_data *)
| SiteMd3OracleNext.      (* MD3.give_oracle_label, later rows -> oracle_data *)

Definition site_origin (c : code) (s : site) : origin :=
  match s with
  | SiteNndviRef | SiteCusumStream | SitePhScores => OValidated
  | SiteHdmAdopted => OFrameOfValidated
  | SiteMd3OracleFirst => if md3_oracle_copies c then OFresh else OArg
  | _ => OFresh
  end.

(** the model's verdict: does the stored attribute share memory with the caller's object? *)
Definition site_is_view (c : code) (s : site) (k : kind) : bool := origin_is_view c k (site_origin c s).

Definition chk_site (c : code) (s : site) (k : kind) (shares_memory : bool) : bool :=
  Bool.eqb (site_is_view c s k) shares_memory.

(** library facts behind the model (measured on numpy / pandas directly, no menelaus involved) *)
Inductive fact :=
| FValues            (* X.values of a DataFrame shares memory with X *)
| FNpArrayOfValues   (* np.array(X.values) shares memory with X *)
| FNpArrayOfCopy     (* np.array(copy.copy(X)) shares memory with X *)
| FFrameCtor         (* pd.DataFrame(ndarray) shares memory with the ndarray *)
| FNpCopy.           (* np.copy(X) shares memory with X *)

Definition fact_shares (c : code) (f : fact) (k : kind) : bool :=
  match f with
  | FValues => is_df k && values_is_view k
  | FNpArrayOfValues | FNpArrayOfCopy | FNpCopy => false
  | FFrameCtor => negb (df_ctor_copies c)
  end.
Definition chk_fact (c : code) (f : fact) (k : kind) (shares_memory : bool) : bool :=
  Bool.eqb (fact_shares c f k) shares_memory.

(** detectors by name, for the overwrite experiment: which sites a history can exercise *)
Inductive dname := DNndvi | DHdm | DKdqStream | DKdqBatch | DPcacd | DCusum | DPh | DScalar | DMd3.
Definition sites_of (d : dname) : list site :=
  match d with
  | DNndvi => [SiteNndviRef; SiteNndviAdopted]
  | DHdm => [SiteHdmRef; SiteHdmAdopted; SiteHdmConcat]
  | DKdqStream => [SiteKdqStreamRef]
  | DKdqBatch => [SiteKdqBatchFirst; SiteKdqBatchAdopted]
  | DPcacd => [SitePcacdRef; SitePcacdTest]
  | DCusum => [SiteCusumStream]
  | DPh => [SitePhScores]
  | DScalar => []
  | DMd3 => [SiteMd3Features; SiteMd3Target; SiteMd3OracleFirst; SiteMd3OracleNext]
  end.

(** the model promises equal traces (with overwrites / with private copies) when no site of the
    detectors involved stores a view for the containers used; [equal] is what the experiment found *)
Definition promises_equal (c : code) (ds : list dname) (ks : list kind) : bool :=
  forallb (fun d => forallb (fun s => forallb (fun k => negb (site_is_view c s k)) ks) (sites_of d)) ds.
Definition chk_twin (c : code) (ds : list dname) (ks : list kind) (equal : bool) : bool :=
  implb (promises_equal c ds ks) equal.

(** injectors: [same_type]: result has the container type of the input; [shares]: result shares
    memory with the input; [unchanged]: the input (and the dict) are bit-for-bit what they were;
    [raised]: the call refused the container *)
Definition chk_inject (c : code) (k : kind) (raised same_type shares unchanged : bool) : bool :=
  match inject_kind k with
  | None => raised
  | Some _ =>
      negb raised && same_type
      && Bool.eqb shares (negb (inj_preprocess_copies c))
      && Bool.eqb unchanged (inj_preprocess_copies c && inj_dict_copies c)
  end.
