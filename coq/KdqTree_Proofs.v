(** Lemmas about the kdq-tree model (KdqTree.v).  Strengths:
    - structural: for every [N : Num], no hypothesis on the arithmetic;
    - order-law: under the single law [fltb m x = negb (fleb x m)] ("no NaN");
    - fuel adequacy / completeness: under [OrdLaws] and the two midpoint laws [MidLaws]. *)
From MV Require Import Base Num KdqTree.
From Coq Require Import ZifyBool.
Local Open Scope Z_scope.
Arguments len : simpl never.

(** ---------------------------------------------------------------- counts *)
Lemma lookup_set_same id v c : lookup id (set_count id v c) = Some v.
Proof.
  induction c as [|[k w] t IH]; simpl.
  - rewrite Z.eqb_refl. reflexivity.
  - destruct (k =? id) eqn:E; simpl; rewrite E; [reflexivity | exact IH].
Qed.

Lemma lookup_set_other id id' v c : id' <> id -> lookup id' (set_count id v c) = lookup id' c.
Proof.
  intros H. induction c as [|[k w] t IH]; simpl.
  - destruct (id =? id') eqn:E; [lia | reflexivity].
  - destruct (k =? id) eqn:E; simpl.
    + destruct (k =? id') eqn:E'; [lia | reflexivity].
    + destruct (k =? id'); [reflexivity | exact IH].
Qed.

Lemma getd_set_same id v c : getd id (set_count id v c) = v.
Proof. unfold getd. rewrite lookup_set_same. reflexivity. Qed.

Lemma getd_bump_acc id k c : getd id (bump id false k c) = getd id c + k.
Proof.
  unfold bump, getd at 2. destruct (lookup id c) as [v|]; rewrite getd_set_same; lia.
Qed.

Lemma getd_bump_reset id k c : getd id (bump id true k c) = k.
Proof. unfold bump. destruct (lookup id c); apply getd_set_same. Qed.

Lemma lookup_bump_other id id' r k c : id' <> id -> lookup id' (bump id r k c) = lookup id' c.
Proof.
  intros H. unfold bump. destruct (lookup id c); [destruct r|]; apply lookup_set_other; exact H.
Qed.

Lemma lookup_bump_same id r k c : lookup id (bump id r k c) = Some (getd id (bump id r k c)).
Proof.
  unfold getd, bump. destruct (lookup id c); [destruct r|]; rewrite lookup_set_same; reflexivity.
Qed.

Lemma len_app {A} (a b : list A) : len (a ++ b) = len a + len b.
Proof. unfold len. rewrite app_length. lia. Qed.

Lemma len_nonneg {A} (a : list A) : 0 <= len a.
Proof. unfold len. lia. Qed.

Lemma len_cons {A} (x : A) (a : list A) : len (x :: a) = 1 + len a.
Proof. unfold len. simpl length. lia. Qed.

Lemma zsum_app a b : zsum (a ++ b) = zsum a + zsum b.
Proof. induction a; simpl; lia. Qed.

(** pointwise sum of two lists (used for "fill accumulates") *)
Fixpoint zadd (a b : list Z) : list Z :=
  match a, b with
  | x :: a', y :: b' => (x + y) :: zadd a' b'
  | _, _ => []
  end.

Lemma zadd_app a a' b b' : length a = length b -> zadd (a ++ a') (b ++ b') = zadd a b ++ zadd a' b'.
Proof.
  revert b. induction a as [|x a IH]; intros [|y b] H; simpl in *; try discriminate; [reflexivity|].
  f_equal. apply IH. lia.
Qed.

Lemma zsum_zadd a b : length a = length b -> zsum (zadd a b) = zsum a + zsum b.
Proof.
  revert b. induction a as [|x a IH]; intros [|y b] H; simpl in *; try discriminate; [reflexivity|].
  rewrite IH by lia. lia.
Qed.

Section Generic.
Context {N : Num}.
Local Open Scope num_scope.
Notation F := (F N).
Notation tree := (tree N).
Notation point := (point N).

(** ---------------------------------------------------------------- views of a tree *)
Definition node_counts (t : tree) : counts :=
  match t with Nil => [] | Leaf c => c | Node _ _ c _ _ => c end.

(** the count a (possibly missing) node contributes for [id]; an absent id counts as 0 *)
Definition cnt (id : Z) (t : tree) : Z := getd id (node_counts t).

(** every node's count is the sum of its children's counts *)
Fixpoint sum_inv (id : Z) (t : tree) : Prop :=
  match t with
  | Node _ _ c l r => getd id c = (cnt id l + cnt id r)%Z /\ sum_inv id l /\ sum_inv id r
  | _ => True
  end.

Fixpoint leaf_total (id : Z) (t : tree) : Z :=
  match t with
  | Nil => 0
  | Leaf c => getd id c
  | Node _ _ _ l r => (leaf_total id l + leaf_total id r)%Z
  end.

(** pre-order list of the per-node dictionary entries / counts for one id *)
Fixpoint lookups_of (id : Z) (t : tree) : list (option Z) :=
  match t with
  | Nil => []
  | Leaf c => [lookup id c]
  | Node _ _ c l r => lookup id c :: lookups_of id l ++ lookups_of id r
  end.

Definition odflt (o : option Z) : Z := match o with Some v => v | None => 0 end.
Definition counts_of (id : Z) (t : tree) : list Z := map odflt (lookups_of id t).

(** the tree without its counts *)
Fixpoint skeleton (t : tree) : tree :=
  match t with
  | Nil => Nil
  | Leaf _ => Leaf []
  | Node ax mid _ l r => Node ax mid [] (skeleton l) (skeleton r)
  end.

(** no node has a missing child *)
Fixpoint complete (t : tree) : Prop :=
  match t with
  | Node _ _ _ l r => l <> Nil /\ r <> Nil /\ complete l /\ complete r
  | _ => True
  end.

(** every node carries a count for [id] *)
Fixpoint has_id (id : Z) (t : tree) : Prop :=
  match t with
  | Nil => True
  | Leaf c => lookup id c <> None
  | Node _ _ c l r => lookup id c <> None /\ has_id id l /\ has_id id r
  end.

Fixpoint nleaves (t : tree) : nat :=
  match t with
  | Nil => 0
  | Leaf _ => 1
  | Node _ _ _ l r => nleaves l + nleaves r
  end.

(** a property of every internal node, given the depth of the root *)
Fixpoint all_nodes (P : Z -> Z -> F -> counts -> tree -> tree -> Prop) (depth : Z) (t : tree) : Prop :=
  match t with
  | Node ax mid c l r => P depth ax mid c l r /\ all_nodes P (depth + 1) l /\ all_nodes P (depth + 1) r
  | _ => True
  end.

Lemma all_nodes_impl (P Q : Z -> Z -> F -> counts -> tree -> tree -> Prop) :
  (forall d ax mid c l r, P d ax mid c l r -> Q d ax mid c l r) ->
  forall t d, all_nodes P d t -> all_nodes Q d t.
Proof.
  intros H t. induction t as [| |ax mid c l IHl r IHr]; intros d; simpl; auto.
  intros (H1 & H2 & H3). auto.
Qed.

Lemma length_lookups id t : length (lookups_of id t) = size t.
Proof.
  induction t as [| |ax mid c l IHl r IHr]; simpl; try reflexivity.
  rewrite app_length, IHl, IHr. reflexivity.
Qed.

Lemma length_counts_of id t : length (counts_of id t) = size t.
Proof. unfold counts_of. rewrite map_length. apply length_lookups. Qed.

Lemma counts_of_node id ax mid c l r :
  counts_of id (Node ax mid c l r) = getd id c :: counts_of id l ++ counts_of id r.
Proof. unfold counts_of. simpl. rewrite map_app. reflexivity. Qed.

Lemma leaf_total_leaf_counts id t :
  leaf_total id t = zsum (map odflt (leaf_counts id t)).
Proof.
  unfold leaf_counts.
  induction t as [| |ax mid c l IHl r IHr]; simpl.
  - reflexivity.
  - unfold getd. destruct (lookup id c); simpl; lia.
  - rewrite map_app, map_app, zsum_app. lia.
Qed.

Lemma length_leaves t : length (leaves t) = nleaves t.
Proof.
  induction t as [| |ax mid c l IHl r IHr]; simpl; try reflexivity.
  rewrite app_length. lia.
Qed.

(** ---------------------------------------------------------------- splitting a sample *)
Section Split.
Variable ord : forall a b : F, fltb a b = negb (fleb b a).

Lemma split_len axis mid (data : list point) :
  (len (upper axis mid data) + len (lower axis mid data))%Z = len data.
Proof.
  unfold upper, lower. induction data as [|p d IH]; simpl; [reflexivity|].
  rewrite ord. destruct (fleb (coord axis p) mid); cbn [negb]; rewrite ?len_cons in *; lia.
Qed.
End Split.

Lemma upper_len_le axis mid (data : list point) : (len (upper axis mid data) <= len data)%Z.
Proof.
  unfold upper. induction data as [|p d IH]; simpl; [lia|].
  destruct (fltb mid (coord axis p)); rewrite ?len_cons; lia.
Qed.

Lemma lower_len_le axis mid (data : list point) : (len (lower axis mid data) <= len data)%Z.
Proof.
  unfold lower. induction data as [|p d IH]; simpl; [lia|].
  destruct (fleb (coord axis p) mid); rewrite ?len_cons; lia.
Qed.

(** ---------------------------------------------------------------- build: declarative specification *)
Section BuildSpec.
Variable m : Z.
Variable cub : Z.
Variable mins : list F.

(** [built data depth t]: [t] is the kdq-tree of [data] whose root sits at [depth] *)
Inductive built : list point -> Z -> tree -> Prop :=
| built_empty : forall depth, built [] depth Nil
| built_nocols : forall data depth, m = 0%Z -> built data depth Nil
| built_leaf : forall data depth,
    data <> [] -> m <> 0%Z -> stop_rule m cub mins data depth = true ->
    built data depth (Leaf [(0%Z, len data)])
| built_node : forall data depth l r,
    data <> [] -> m <> 0%Z -> stop_rule m cub mins data depth = false ->
    let axis := axis_of m depth in
    let mid := midpoint axis data in
    built (lower axis mid data) (depth + 1) l ->
    built (upper axis mid data) (depth + 1) r ->
    built data depth
          (Node axis mid [(0%Z, (len (upper axis mid data) + len (lower axis mid data))%Z)] l r).

(** unfolding equations of [build_node] *)
Lemma build_node_nil fuel depth : build_node m cub mins fuel [] depth = (Nil, false).
Proof. destruct fuel; reflexivity. Qed.

Lemma build_node_nocols fuel data depth : m = 0%Z -> build_node m cub mins fuel data depth = (Nil, false).
Proof. intros ->. destruct fuel, data; reflexivity. Qed.

Lemma build_node_stop fuel data depth :
  data <> [] -> m <> 0%Z -> stop_rule m cub mins data depth = true ->
  build_node m cub mins fuel data depth = (Leaf [(0%Z, len data)], false).
Proof.
  intros Hd Hm Hs. destruct data as [|p d]; [congruence|].
  destruct fuel; cbn [build_node]; destruct (Z.eqb_spec m 0); try contradiction; rewrite Hs; reflexivity.
Qed.

Lemma build_node_O data depth :
  data <> [] -> m <> 0%Z -> stop_rule m cub mins data depth = false ->
  build_node m cub mins O data depth = (Nil, true).
Proof.
  intros Hd Hm Hs. destruct data as [|p d]; [congruence|].
  cbn [build_node]. destruct (Z.eqb_spec m 0); try contradiction. rewrite Hs. reflexivity.
Qed.

Lemma build_node_S fuel data depth :
  data <> [] -> m <> 0%Z -> stop_rule m cub mins data depth = false ->
  build_node m cub mins (S fuel) data depth =
    (let axis := axis_of m depth in
     let mid := midpoint axis data in
     let '(l, fl) := build_node m cub mins fuel (lower axis mid data) (depth + 1) in
     let '(r, fr) := build_node m cub mins fuel (upper axis mid data) (depth + 1) in
     (Node axis mid [(0%Z, (len (upper axis mid data) + len (lower axis mid data))%Z)] l r, fl || fr)).
Proof.
  intros Hd Hm Hs. destruct data as [|p d]; [congruence|].
  cbn [build_node]. destruct (Z.eqb_spec m 0); try contradiction. rewrite Hs. reflexivity.
Qed.

(** the recursive function computes the specified tree whenever it does not run out of fuel *)
Lemma build_sound : forall fuel data depth t,
  build_node m cub mins fuel data depth = (t, false) -> built data depth t.
Proof.
  induction fuel as [|fuel IH]; intros data depth t H.
  - destruct data as [|p d]; [rewrite build_node_nil in H; inversion H; constructor|].
    destruct (Z.eq_dec m 0) as [Em|Em];
      [rewrite build_node_nocols in H by exact Em; inversion H; apply built_nocols; exact Em|].
    destruct (stop_rule m cub mins (p :: d) depth) eqn:Es.
    + rewrite build_node_stop in H by (try discriminate; assumption). inversion H.
      apply built_leaf; [discriminate | exact Em | exact Es].
    + rewrite build_node_O in H by (try discriminate; assumption). discriminate.
  - destruct data as [|p d]; [rewrite build_node_nil in H; inversion H; constructor|].
    destruct (Z.eq_dec m 0) as [Em|Em];
      [rewrite build_node_nocols in H by exact Em; inversion H; apply built_nocols; exact Em|].
    destruct (stop_rule m cub mins (p :: d) depth) eqn:Es.
    + rewrite build_node_stop in H by (try discriminate; assumption). inversion H.
      apply built_leaf; [discriminate | exact Em | exact Es].
    + rewrite build_node_S in H by (try discriminate; assumption). cbv zeta in H.
      destruct (build_node m cub mins fuel
                 (lower (axis_of m depth) (midpoint (axis_of m depth) (p :: d)) (p :: d)) (depth + 1))
        as [l fl] eqn:El.
      destruct (build_node m cub mins fuel
                 (upper (axis_of m depth) (midpoint (axis_of m depth) (p :: d)) (p :: d)) (depth + 1))
        as [r fr] eqn:Er.
      injection H as <- Hf. apply orb_false_iff in Hf as [-> ->].
      apply built_node; [discriminate | exact Em | exact Es | apply IH; exact El | apply IH; exact Er].
Qed.

(** the stop rule, spelled out *)
Lemma stop_rule_false data depth :
  stop_rule m cub mins data depth = false ->
  (cub < len data)%Z /\ (cub < distinct (concat data))%Z /\
  fleb (cell_size (axis_of m depth) data) (nth (Z.to_nat (axis_of m depth)) mins f0) = false /\
  fleb (col_max (column (axis_of m depth) data)) (midpoint (axis_of m depth) data) = false.
Proof.
  unfold stop_rule. destruct (Z.leb_spec (len data) cub); [discriminate|].
  destruct (Z.leb_spec (distinct (concat data)) cub); [discriminate|].
  destruct (fleb (cell_size (axis_of m depth) data) (nth (Z.to_nat (axis_of m depth)) mins f0));
    [discriminate|]. auto.
Qed.

Lemma stop_rule_small data depth : (len data <= cub)%Z -> stop_rule m cub mins data depth = true.
Proof. unfold stop_rule. intros H. destruct (Z.leb_spec (len data) cub); [reflexivity | lia]. Qed.

(** structural consequences (every [N]) *)
Lemma built_axes data depth t :
  built data depth t -> all_nodes (fun d ax _ _ _ _ => ax = (d mod m)%Z) depth t.
Proof. induction 1; simpl; auto. Qed.

Lemma built_has_id data depth t : built data depth t -> has_id 0 t.
Proof. induction 1; simpl; auto; try discriminate. repeat split; auto; discriminate. Qed.

Lemma built_counts_shape data depth t :
  built data depth t -> all_nodes (fun _ _ _ c _ _ => exists k, c = [(0%Z, k)]) depth t.
Proof. induction 1; simpl; auto. repeat split; auto. eexists; reflexivity. Qed.

(** the three reasons for which a node is split at all *)
Lemma built_split_reason data depth t :
  built data depth t ->
  forall ax mid c l r, t = Node ax mid c l r ->
    (cub < len data)%Z /\ (cub < distinct (concat data))%Z /\
    fleb (cell_size ax data) (nth (Z.to_nat ax) mins f0) = false /\
    fleb (col_max (column ax data)) mid = false /\
    ax = (depth mod m)%Z /\ mid = midpoint ax data /\
    built (lower ax mid data) (depth + 1) l /\ built (upper ax mid data) (depth + 1) r.
Proof.
  intros H ax mid c l r E. destruct H; try discriminate.
  inversion E; subst. apply stop_rule_false in H1 as (A & B & C & D). repeat split; auto.
Qed.

Section BuildOrd.
Variable ord : forall a b : F, fltb a b = negb (fleb b a).
Hypothesis m_pos : m <> 0%Z.

Lemma built_cnt data depth t : built data depth t -> cnt 0 t = len data.
Proof.
  intros H. destruct H; unfold cnt; simpl; try reflexivity; try contradiction.
  unfold getd; simpl. apply split_len. exact ord.
Qed.

Lemma built_sum_inv data depth t : built data depth t -> sum_inv 0 t.
Proof.
  induction 1; simpl; auto. repeat split; auto.
  rewrite (built_cnt _ _ _ H2), (built_cnt _ _ _ H3). unfold getd; simpl. lia.
Qed.

Lemma built_leaf_total data depth t : built data depth t -> leaf_total 0 t = len data.
Proof.
  induction 1; simpl; try reflexivity; try contradiction.
  rewrite IHbuilt1, IHbuilt2. rewrite <- (split_len ord axis mid data). lia.
Qed.

(** no node holding [count_ubound] points or fewer is split *)
Lemma built_no_small_split data depth t :
  built data depth t -> all_nodes (fun _ _ _ c _ _ => (cub < getd 0 c)%Z) depth t.
Proof.
  induction 1; simpl; auto. repeat split; auto.
  apply stop_rule_false in H1 as (A & _). unfold getd; simpl. rewrite (split_len ord). exact A.
Qed.
End BuildOrd.
End BuildSpec.

(** ---------------------------------------------------------------- fill *)
(** how many points of a sample each node counts (pre-order) — defined without reference to [fill] *)
Fixpoint arrivals (data : list point) (t : tree) : list Z :=
  match t with
  | Nil => []
  | Leaf _ => [len data]
  | Node ax mid _ l r =>
      (len (upper ax mid data) + len (lower ax mid data))%Z
      :: arrivals (lower ax mid data) l ++ arrivals (upper ax mid data) r
  end.

Lemma length_arrivals data t : length (arrivals data t) = size t.
Proof.
  revert data. induction t as [| |ax mid c l IHl r IHr]; intros data; simpl; try reflexivity.
  rewrite app_length, IHl, IHr. reflexivity.
Qed.

Lemma fill_skeleton data t id reset : skeleton (fill data t id reset) = skeleton t.
Proof.
  revert data. induction t as [| |ax mid c l IHl r IHr]; intros data; simpl; try reflexivity.
  rewrite IHl, IHr. reflexivity.
Qed.

Lemma fill_frame data t id reset id' :
  id' <> id -> lookups_of id' (fill data t id reset) = lookups_of id' t.
Proof.
  intros H. revert data. induction t as [| |ax mid c l IHl r IHr]; intros data; simpl.
  - reflexivity.
  - rewrite lookup_bump_other by exact H. reflexivity.
  - rewrite lookup_bump_other by exact H. rewrite IHl, IHr. reflexivity.
Qed.

Lemma fill_has_id data t id reset : has_id id (fill data t id reset).
Proof.
  revert data. induction t as [| |ax mid c l IHl r IHr]; intros data; simpl; auto.
  - rewrite lookup_bump_same. discriminate.
  - rewrite lookup_bump_same. repeat split; auto. discriminate.
Qed.

Lemma fill_has_id_other data t id reset id' : has_id id' t -> has_id id' (fill data t id reset).
Proof.
  destruct (Z.eq_dec id' id) as [->|H]; [intros _; apply fill_has_id|].
  revert data. induction t as [| |ax mid c l IHl r IHr]; intros data; simpl; auto.
  - rewrite lookup_bump_other by exact H. auto.
  - rewrite lookup_bump_other by exact H. intros (A & B & C). auto.
Qed.

(** reset = True: the counts for [id] are those of the new sample alone *)
Lemma fill_counts_reset data t id : counts_of id (fill data t id true) = arrivals data t.
Proof.
  revert data. induction t as [| |ax mid c l IHl r IHr]; intros data.
  - reflexivity.
  - unfold counts_of. simpl. rewrite lookup_bump_same. simpl. rewrite getd_bump_reset. reflexivity.
  - simpl fill. rewrite counts_of_node, getd_bump_reset, IHl, IHr. reflexivity.
Qed.

(** reset = False: the counts of the new sample are added (an absent id counts as 0) *)
Lemma fill_counts_acc data t id :
  counts_of id (fill data t id false) = zadd (counts_of id t) (arrivals data t).
Proof.
  revert data. induction t as [| |ax mid c l IHl r IHr]; intros data.
  - reflexivity.
  - unfold counts_of. simpl. rewrite lookup_bump_same. simpl. rewrite getd_bump_acc.
    unfold getd. reflexivity.
  - simpl fill. rewrite !counts_of_node, getd_bump_acc, IHl, IHr. simpl. f_equal.
    symmetry. apply zadd_app. rewrite length_counts_of, length_arrivals. reflexivity.
Qed.

(** filling the data a tree was built from reproduces the build counts, node by node (every [N]) *)
Lemma built_arrivals m cub mins data depth t :
  built m cub mins data depth t -> arrivals data t = counts_of 0 t.
Proof.
  induction 1; try reflexivity.
  rewrite counts_of_node. simpl. rewrite IHbuilt1, IHbuilt2. reflexivity.
Qed.

(** counts per leaf of a fresh sample, and the leaf a point belongs to *)
Fixpoint leaf_arrivals (data : list point) (t : tree) : list Z :=
  match t with
  | Nil => []
  | Leaf _ => [len data]
  | Node ax mid _ l r => leaf_arrivals (lower ax mid data) l ++ leaf_arrivals (upper ax mid data) r
  end.

Lemma length_leaf_arrivals data t : length (leaf_arrivals data t) = nleaves t.
Proof.
  revert data. induction t as [| |ax mid c l IHl r IHr]; intros data; simpl; try reflexivity.
  rewrite app_length, IHl, IHr. reflexivity.
Qed.

Lemma leaf_counts_fill_reset data t id :
  map odflt (leaf_counts id (fill data t id true)) = leaf_arrivals data t.
Proof.
  unfold leaf_counts. revert data. induction t as [| |ax mid c l IHl r IHr]; intros data; simpl.
  - reflexivity.
  - rewrite lookup_bump_same. simpl. rewrite getd_bump_reset. reflexivity.
  - rewrite !map_app, IHl, IHr. reflexivity.
Qed.

Lemma leaf_counts_fill_acc data t id :
  map odflt (leaf_counts id (fill data t id false))
  = zadd (map odflt (leaf_counts id t)) (leaf_arrivals data t).
Proof.
  unfold leaf_counts. revert data. induction t as [| |ax mid c l IHl r IHr]; intros data; simpl.
  - reflexivity.
  - rewrite lookup_bump_same. simpl. rewrite getd_bump_acc. unfold getd. reflexivity.
  - rewrite !map_app, IHl, IHr. symmetry. apply zadd_app.
    rewrite !map_length, length_leaves, length_leaf_arrivals. reflexivity.
Qed.

(** the leaf (index in [leaves], left to right) whose cell contains a point: descend by the
    stored splits, [<= mid] to the left, [> mid] to the right *)
Fixpoint locate (p : point) (t : tree) : option nat :=
  match t with
  | Nil => None
  | Leaf _ => Some O
  | Node ax mid _ l r =>
      if coord ax p <=? mid then locate p l
      else if mid <? coord ax p then
        match locate p r with Some j => Some (nleaves l + j)%nat | None => None end
      else None
  end.

Definition at_leaf (t : tree) (i : nat) (p : point) : bool :=
  match locate p t with Some j => Nat.eqb j i | None => false end.

Lemma locate_lt p t j : locate p t = Some j -> (j < nleaves t)%nat.
Proof.
  revert j. induction t as [| |ax mid c l IHl r IHr]; intros j; simpl.
  - discriminate.
  - intros H; inversion H; lia.
  - destruct (fleb (coord ax p) mid).
    + intros H. apply IHl in H. lia.
    + destruct (fltb mid (coord ax p)); [|discriminate].
      destruct (locate p r) as [k|]; [|discriminate].
      intros H; inversion H. specialize (IHr k eq_refl). lia.
Qed.

Lemma filter_filter_len {A} (f g : A -> bool) (l : list A) :
  len (filter f (filter g l)) = len (filter (fun x => g x && f x) l).
Proof.
  induction l as [|x l IH]; simpl; [reflexivity|].
  destruct (g x); simpl; [destruct (f x); rewrite ?len_cons; rewrite IH; reflexivity | exact IH].
Qed.

Lemma filter_ext_len {A} (f g : A -> bool) (l : list A) :
  (forall x, f x = g x) -> len (filter f l) = len (filter g l).
Proof. intros H. rewrite (filter_ext f g H). reflexivity. Qed.

Section FillOrd.
Variable ord : forall a b : F, fltb a b = negb (fleb b a).

(** fill assigns every point to the leaf whose cell contains it: the number of points counted at
    leaf [i] is the number of points located at leaf [i] *)
Lemma leaf_arrivals_locate t : forall data i, (i < nleaves t)%nat ->
  nth i (leaf_arrivals data t) 0%Z = len (filter (at_leaf t i) data).
Proof.
  induction t as [| |ax mid c l IHl r IHr]; intros data i Hi; simpl in Hi.
  - lia.
  - assert (i = O) by lia. subst. simpl.
    rewrite (filter_ext_len (at_leaf (Leaf c) 0) (fun _ => true)) by reflexivity.
    clear. induction data; simpl; rewrite ?len_cons; [reflexivity|]. rewrite <- IHdata. reflexivity.
  - simpl leaf_arrivals. destruct (Nat.ltb_spec i (nleaves l)) as [Hl|Hl].
    + rewrite app_nth1 by (rewrite length_leaf_arrivals; exact Hl).
      rewrite IHl by exact Hl. unfold lower. rewrite filter_filter_len.
      apply filter_ext_len. intros p. unfold at_leaf. simpl.
      destruct (fleb (coord ax p) mid) eqn:E; simpl; [reflexivity|].
      destruct (fltb mid (coord ax p)); [|reflexivity].
      destruct (locate p r) as [j|]; [|reflexivity].
      symmetry. apply Nat.eqb_neq. lia.
    + rewrite app_nth2 by (rewrite length_leaf_arrivals; exact Hl).
      rewrite length_leaf_arrivals.
      rewrite IHr by lia. unfold upper. rewrite filter_filter_len.
      apply filter_ext_len. intros p. unfold at_leaf. simpl. rewrite ord.
      destruct (fleb (coord ax p) mid) eqn:E; simpl.
      * destruct (locate p l) as [j|] eqn:Ej; [|reflexivity].
        apply locate_lt in Ej. symmetry. apply Nat.eqb_neq. lia.
      * destruct (locate p r) as [j|]; [|reflexivity].
        destruct (Nat.eqb_spec j (i - nleaves l)), (Nat.eqb_spec (nleaves l + j) i); try reflexivity; lia.
Qed.

(** in a tree without missing children every point has a leaf *)
Lemma locate_total p t : complete t -> t <> Nil -> locate p t <> None.
Proof.
  induction t as [| |ax mid c l IHl r IHr]; simpl; intros Hc Hn.
  - contradiction.
  - discriminate.
  - destruct Hc as (Hl & Hr & Cl & Cr). rewrite ord.
    destruct (fleb (coord ax p) mid); simpl; [apply IHl; assumption|].
    specialize (IHr Cr Hr). destruct (locate p r); [discriminate | contradiction].
Qed.

(** conservation: a complete tree loses no point *)
Lemma arrivals_root data t : t <> Nil -> hd 0%Z (arrivals data t) = len data.
Proof.
  destruct t; simpl; try contradiction; try reflexivity. intros _. apply split_len. exact ord.
Qed.

Lemma leaf_arrivals_total data t : complete t -> t <> Nil -> zsum (leaf_arrivals data t) = len data.
Proof.
  revert data. induction t as [| |ax mid c l IHl r IHr]; intros data Hc Hn; simpl.
  - contradiction.
  - lia.
  - destruct Hc as (Hl & Hr & Cl & Cr). rewrite zsum_app, IHl, IHr by assumption.
    rewrite <- (split_len ord ax mid data). lia.
Qed.

Lemma cnt_fill data t id reset : t <> Nil ->
  cnt id (fill data t id reset) = ((if reset then 0 else cnt id t) + len data)%Z.
Proof.
  destruct t as [| c | ax mid c l r]; intros Hn; [contradiction| |]; unfold cnt; simpl;
    destruct reset; rewrite ?getd_bump_reset, ?getd_bump_acc, ?(split_len ord); lia.
Qed.

Lemma fill_sum_inv data t id reset :
  complete t -> (reset = true \/ sum_inv id t) -> sum_inv id (fill data t id reset).
Proof.
  revert data. induction t as [| |ax mid c l IHl r IHr]; intros data Hc Hs; simpl; auto.
  destruct Hc as (Hl & Hr & Cl & Cr).
  assert (Hs' : reset = true \/ (getd id c = (cnt id l + cnt id r)%Z /\ sum_inv id l /\ sum_inv id r))
    by (destruct Hs; [left | right]; assumption).
  repeat split.
  - rewrite !cnt_fill by assumption.
    pose proof (split_len ord ax mid data) as S.
    destruct reset.
    + rewrite getd_bump_reset. lia.
    + rewrite getd_bump_acc. destruct Hs' as [?|(E & _)]; [discriminate|]. lia.
  - apply IHl; [exact Cl|]. destruct Hs' as [?|(_ & A & _)]; auto.
  - apply IHr; [exact Cr|]. destruct Hs' as [?|(_ & _ & A)]; auto.
Qed.

Lemma fill_sum_inv_other data t id reset id' :
  id' <> id -> sum_inv id' t -> sum_inv id' (fill data t id reset).
Proof.
  intros H. revert data. induction t as [| |ax mid c l IHl r IHr]; intros data; simpl; auto.
  intros (E & A & B). repeat split; auto.
  assert (G : forall d s, cnt id' (fill d s id reset) = cnt id' s).
  { intros d s. destruct s; unfold cnt, getd; simpl; rewrite ?lookup_bump_other by exact H; reflexivity. }
  rewrite !G. unfold getd. rewrite lookup_bump_other by exact H. exact E.
Qed.

Lemma fill_leaf_total data t id reset : complete t -> t <> Nil ->
  leaf_total id (fill data t id reset) = ((if reset then 0 else leaf_total id t) + len data)%Z.
Proof.
  intros Hc Hn. rewrite !leaf_total_leaf_counts.
  destruct reset.
  - rewrite leaf_counts_fill_reset, leaf_arrivals_total by assumption. lia.
  - rewrite leaf_counts_fill_acc, zsum_zadd, leaf_arrivals_total by
      (try assumption; unfold leaf_counts; rewrite !map_length, length_leaves, length_leaf_arrivals; reflexivity).
    reflexivity.
Qed.

Lemma fill_leaf_total_other data t id reset id' :
  id' <> id -> leaf_total id' (fill data t id reset) = leaf_total id' t.
Proof.
  intros H. revert data. induction t as [| |ax mid c l IHl r IHr]; intros data; simpl.
  - reflexivity.
  - unfold getd. rewrite lookup_bump_other by exact H. reflexivity.
  - rewrite IHl, IHr. reflexivity.
Qed.
End FillOrd.

Lemma fill_complete (data : list point) (t : tree) id reset : complete t -> complete (fill data t id reset).
Proof.
  revert data. induction t as [| |ax mid c l IHl r IHr]; intros data; simpl; auto.
  intros (Hl & Hr & Cl & Cr). repeat split; auto.
  - destruct l; simpl; try discriminate. contradiction.
  - destruct r; simpl; try discriminate. contradiction.
Qed.

Lemma fill_not_nil (data : list point) (t : tree) id reset : t <> Nil -> fill data t id reset <> Nil.
Proof. destruct t; simpl; try discriminate. contradiction. Qed.

(** ---------------------------------------------------------------- reset *)
Lemma reset_skeleton v id (t : tree) : skeleton (reset_tree v id t) = skeleton t.
Proof. induction t as [| |ax mid c l IHl r IHr]; simpl; try reflexivity. rewrite IHl, IHr. reflexivity. Qed.

Lemma reset_complete v id (t : tree) : complete t -> complete (reset_tree v id t).
Proof.
  induction t as [| |ax mid c l IHl r IHr]; simpl; auto.
  intros (Hl & Hr & Cl & Cr). repeat split; auto.
  - destruct l; simpl; try discriminate. contradiction.
  - destruct r; simpl; try discriminate. contradiction.
Qed.

Lemma reset_not_nil v id (t : tree) : t <> Nil -> reset_tree v id t <> Nil.
Proof. destruct t; simpl; try discriminate. contradiction. Qed.

Lemma cnt_reset_zero id (t : tree) : cnt id (reset_tree 0 id t) = 0%Z.
Proof. destruct t; unfold cnt; simpl; rewrite ?getd_set_same; reflexivity. Qed.

Lemma reset_sum_inv_zero id (t : tree) : sum_inv id (reset_tree 0 id t).
Proof.
  induction t as [| |ax mid c l IHl r IHr]; simpl; auto.
  repeat split; auto. rewrite getd_set_same, !cnt_reset_zero. reflexivity.
Qed.

Lemma reset_leaf_total_zero id (t : tree) : leaf_total id (reset_tree 0 id t) = 0%Z.
Proof.
  induction t as [| |ax mid c l IHl r IHr]; simpl; try reflexivity.
  - apply getd_set_same.
  - rewrite IHl, IHr. reflexivity.
Qed.

Lemma reset_other v id id' (t : tree) : id' <> id -> lookups_of id' (reset_tree v id t) = lookups_of id' t.
Proof.
  intros H. induction t as [| |ax mid c l IHl r IHr]; simpl.
  - reflexivity.
  - rewrite lookup_set_other by exact H. reflexivity.
  - rewrite lookup_set_other by exact H. rewrite IHl, IHr. reflexivity.
Qed.

Lemma reset_sum_inv_other v id id' (t : tree) :
  id' <> id -> sum_inv id' t -> sum_inv id' (reset_tree v id t).
Proof.
  intros H. induction t as [| |ax mid c l IHl r IHr]; simpl; auto.
  intros (E & A & B). repeat split; auto.
  assert (G : forall s : tree, cnt id' (reset_tree v id s) = cnt id' s).
  { intros s. destruct s; unfold cnt, getd; simpl; rewrite ?lookup_set_other by exact H; reflexivity. }
  rewrite !G. unfold getd. rewrite lookup_set_other by exact H. exact E.
Qed.

Lemma reset_leaf_total_other v id id' (t : tree) :
  id' <> id -> leaf_total id' (reset_tree v id t) = leaf_total id' t.
Proof.
  intros H. induction t as [| |ax mid c l IHl r IHr]; simpl.
  - reflexivity.
  - unfold getd. rewrite lookup_set_other by exact H. reflexivity.
  - rewrite IHl, IHr. reflexivity.
Qed.

(** ---------------------------------------------------------------- histories of fill / reset calls *)
Definition op_ok (o : op N) : Prop := match o with OReset v _ => v = 0%Z | OFill _ _ _ => True end.

(** the number of points the counts for [id] have to add up to after one more call *)
Definition ledger_step (id : Z) (acc : Z) (o : op N) : Z :=
  match o with
  | OFill data i reset => if (i =? id)%Z then ((if reset then 0 else acc) + len data)%Z else acc
  | OReset _ i => if (i =? id)%Z then 0%Z else acc
  end.
Definition ledger (id : Z) (acc : Z) (ops : list (op N)) : Z := fold_left (ledger_step id) ops acc.

Definition good (t : tree) : Prop := complete t /\ t <> Nil /\ forall id, sum_inv id t.

Section History.
Variable ord : forall a b : F, fltb a b = negb (fleb b a).

Lemma apply_op_good t o : op_ok o -> good t ->
  good (apply_op t o) /\ skeleton (apply_op t o) = skeleton t
  /\ (forall id, leaf_total id (apply_op t o) = ledger_step id (leaf_total id t) o)
  /\ (forall id, cnt id (apply_op t o) = ledger_step id (cnt id t) o).
Proof.
  intros Ho (Hc & Hn & Hs). destruct o as [data i reset | v i]; simpl in *.
  - repeat split.
    + apply fill_complete; exact Hc.
    + apply fill_not_nil; exact Hn.
    + intros id. destruct (Z.eq_dec id i) as [->|Hne].
      * apply fill_sum_inv; auto.
      * apply fill_sum_inv_other; auto.
    + apply fill_skeleton.
    + intros id. destruct (Z.eqb_spec i id) as [->|Hne].
      * apply fill_leaf_total; auto.
      * apply fill_leaf_total_other; auto.
    + intros id. destruct (Z.eqb_spec i id) as [->|Hne].
      * apply cnt_fill; auto.
      * destruct t; unfold cnt, getd; simpl; rewrite ?lookup_bump_other by auto; reflexivity.
  - subst v. repeat split.
    + apply reset_complete; exact Hc.
    + apply reset_not_nil; exact Hn.
    + intros id. destruct (Z.eq_dec id i) as [->|Hne].
      * apply reset_sum_inv_zero.
      * apply reset_sum_inv_other; auto.
    + apply reset_skeleton.
    + intros id. destruct (Z.eqb_spec i id) as [->|Hne].
      * apply reset_leaf_total_zero.
      * apply reset_leaf_total_other; auto.
    + intros id. destruct (Z.eqb_spec i id) as [->|Hne].
      * apply cnt_reset_zero.
      * destruct t; unfold cnt, getd; simpl; rewrite ?lookup_set_other by auto; reflexivity.
Qed.

Lemma run_ops_good ops : forall t, Forall op_ok ops -> good t ->
  good (run_ops t ops) /\ skeleton (run_ops t ops) = skeleton t
  /\ (forall id, leaf_total id (run_ops t ops) = ledger id (leaf_total id t) ops)
  /\ (forall id, cnt id (run_ops t ops) = ledger id (cnt id t) ops).
Proof.
  induction ops as [|o ops IH]; intros t Hf Hg; simpl.
  - repeat split; auto; apply Hg.
  - inversion Hf as [|? ? Ho Hrest]; subst.
    destruct (apply_op_good t o Ho Hg) as (G & S & L & C).
    destruct (IH (apply_op t o) Hrest G) as (G' & S' & L' & C').
    repeat split; try apply G'.
    + rewrite S'. exact S.
    + intros id. rewrite L', L. reflexivity.
    + intros id. rewrite C', C. reflexivity.
Qed.
End History.

(** ---------------------------------------------------------------- fuel adequacy, completeness *)
(** what the midpoint computation has to satisfy for the lower part of a split to be non-empty
    (true of exact arithmetic, and of IEEE doubles by monotonicity of rounding; without it
    [mid < min] would send every point to the upper part and [build] would not terminate).
    Nothing is needed for the upper part: the stop rule's last clause guarantees [mid < max]. *)
Record MidLaws := {
  mid_ge_lo : forall lo hi : F, fleb lo hi = true -> fleb lo (lo + (hi - lo) / two) = true
}.

Section Fuel.
Variable OL : OrdLaws N.
Variable ML : MidLaws.
Variable m : Z.
Variable cub : Z.
Variable mins : list F.

Let ord := ltb_leb N OL.

Lemma fold_min_spec (t : list F) : forall x,
  let r := fold_left (fun a y => if y <? a then y else a) t x in
  In r (x :: t) /\ fleb r x = true.
Proof.
  induction t as [|y t IH]; intros x; simpl.
  - split; [left; reflexivity | apply (leb_refl N OL)].
  - destruct (IH (if y <? x then y else x)) as [Hin Hle]. split.
    + destruct Hin as [E|Hin]; [|right; right; exact Hin].
      destruct (y <? x); [right; left | left]; exact E.
    + destruct (y <? x) eqn:E; [|exact Hle].
      apply (leb_trans N OL) with y; [exact Hle|].
      rewrite ord in E. destruct (leb_total N OL y x) as [A|A]; [exact A|]. rewrite A in E. discriminate.
Qed.

Lemma fold_max_spec (t : list F) : forall x,
  let r := fold_left (fun a y => if a <? y then y else a) t x in
  In r (x :: t) /\ fleb x r = true.
Proof.
  induction t as [|y t IH]; intros x; simpl.
  - split; [left; reflexivity | apply (leb_refl N OL)].
  - destruct (IH (if x <? y then y else x)) as [Hin Hle]. split.
    + destruct Hin as [E|Hin]; [|right; right; exact Hin].
      destruct (x <? y); [right; left | left]; exact E.
    + destruct (x <? y) eqn:E; [|exact Hle].
      apply (leb_trans N OL) with y; [|exact Hle].
      rewrite ord in E. destruct (leb_total N OL x y) as [A|A]; [exact A|]. rewrite A in E. discriminate.
Qed.

Lemma col_min_in (col : list F) : col <> [] -> In (col_min col) col.
Proof. destruct col as [|x t]; [congruence|]. intros _. apply fold_min_spec. Qed.
Lemma col_max_in (col : list F) : col <> [] -> In (col_max col) col.
Proof. destruct col as [|x t]; [congruence|]. intros _. apply fold_max_spec. Qed.
Lemma col_min_le_max (col : list F) : fleb (col_min col) (col_max col) = true.
Proof.
  destruct col as [|x t]; simpl; [apply (leb_refl N OL)|].
  apply (leb_trans N OL) with x; [apply fold_min_spec | apply fold_max_spec].
Qed.

Lemma in_column axis (data : list point) (v : F) :
  In v (column axis data) -> exists p, In p data /\ coord axis p = v.
Proof. unfold column. intros H. apply in_map_iff in H as (p & E & Hp). eauto. Qed.

(** when the stop rule lets a node be split, both halves are non-empty *)
Lemma split_nonempty data depth :
  data <> [] -> stop_rule m cub mins data depth = false ->
  let axis := axis_of m depth in
  lower axis (midpoint axis data) data <> [] /\ upper axis (midpoint axis data) data <> [].
Proof.
  intros Hd Hs axis.
  apply stop_rule_false in Hs as (_ & _ & _ & Hc). fold axis in Hc.
  assert (Hcol : column axis data <> []) by (destruct data; [congruence | discriminate]).
  pose proof (col_min_le_max (column axis data)) as Hmm.
  unfold midpoint, ptp in *.
  set (lo := col_min (column axis data)) in *. set (hi := col_max (column axis data)) in *.
  split.
  - destruct (in_column axis data lo (col_min_in _ Hcol)) as (p & Hp & Ep).
    intros E. assert (Hin : In p (lower axis (lo + (hi - lo) / two) data)).
    { unfold lower. apply filter_In. split; [exact Hp|]. rewrite Ep. apply (mid_ge_lo ML); exact Hmm. }
    rewrite E in Hin. exact Hin.
  - destruct (in_column axis data hi (col_max_in _ Hcol)) as (p & Hp & Ep).
    intros E. assert (Hin : In p (upper axis (lo + (hi - lo) / two) data)).
    { unfold upper. apply filter_In. split; [exact Hp|]. rewrite Ep, ord, Hc. reflexivity. }
    rewrite E in Hin. exact Hin.
Qed.

Lemma nonempty_len {A} (l : list A) : l <> [] -> (1 <= len l)%Z.
Proof. destruct l; [congruence|]. rewrite len_cons. pose proof (len_nonneg l). lia. Qed.

(** [build] never runs out of fuel when given at least as much fuel as there are points *)
Lemma build_fuel_ok : forall fuel data depth,
  (len data <= Z.of_nat fuel)%Z -> snd (build_node m cub mins fuel data depth) = false.
Proof.
  induction fuel as [|fuel IH]; intros data depth Hl.
  - destruct data as [|p d]; [rewrite build_node_nil; reflexivity|].
    rewrite len_cons in Hl. pose proof (len_nonneg d). lia.
  - destruct data as [|p d]; [rewrite build_node_nil; reflexivity|].
    destruct (Z.eq_dec m 0) as [Em|Em]; [rewrite build_node_nocols by exact Em; reflexivity|].
    destruct (stop_rule m cub mins (p :: d) depth) eqn:Es.
    + rewrite build_node_stop by (try discriminate; assumption). reflexivity.
    + rewrite build_node_S by (try discriminate; assumption). cbv zeta.
      destruct (split_nonempty (p :: d) depth ltac:(discriminate) Es) as [Hlo Hup].
      pose proof (split_len ord (axis_of m depth) (midpoint (axis_of m depth) (p :: d)) (p :: d)) as Hsp.
      apply nonempty_len in Hlo. apply nonempty_len in Hup.
      pose proof (IH (lower (axis_of m depth) (midpoint (axis_of m depth) (p :: d)) (p :: d)) (depth + 1)%Z) as I1.
      pose proof (IH (upper (axis_of m depth) (midpoint (axis_of m depth) (p :: d)) (p :: d)) (depth + 1)%Z) as I2.
      destruct (build_node m cub mins fuel (lower _ _ _) _) as [l fl].
      destruct (build_node m cub mins fuel (upper _ _ _) _) as [r fr].
      simpl in *. rewrite I1, I2 by lia. reflexivity.
Qed.

(** ... and the tree it builds has no missing child *)
Lemma built_complete data depth t :
  built m cub mins data depth t -> complete t /\ (data <> [] -> m <> 0%Z -> t <> Nil).
Proof.
  induction 1; simpl.
  - split; [exact I | intros A _; exfalso; apply A; reflexivity].
  - split; [exact I | intros _ B; contradiction].
  - split; [exact I | discriminate].
  - destruct IHbuilt1 as [C1 N1], IHbuilt2 as [C2 N2].
    destruct (split_nonempty data depth H H1) as [Hlo Hup].
    split; [|discriminate]. repeat split; auto.
Qed.
End Fuel.

(** under the order laws alone an internal node of a built tree has a non-empty upper part, hence a
    right child: the last clause of the stop rule gives [mid < max] *)
Section UpperOnly.
Variable OL : OrdLaws N.
Lemma upper_nonempty m cub mins (data : list point) depth :
  data <> [] -> stop_rule m cub mins data depth = false ->
  upper (axis_of m depth) (midpoint (axis_of m depth) data) data <> [].
Proof.
  intros Hd Hs. apply stop_rule_false in Hs as (_ & _ & _ & Hc).
  set (axis := axis_of m depth) in *.
  assert (Hcol : column axis data <> []) by (destruct data; [congruence | discriminate]).
  destruct (in_column axis data _ (col_max_in OL _ Hcol)) as (p & Hp & Ep).
  intros E. assert (Hin : In p (upper axis (midpoint axis data) data)).
  { unfold upper. apply filter_In. split; [exact Hp|]. rewrite Ep, (ltb_leb N OL), Hc. reflexivity. }
  rewrite E in Hin. exact Hin.
Qed.

Lemma built_not_nil m cub mins (data : list point) depth t :
  built m cub mins data depth t -> data <> [] -> m <> 0%Z -> t <> Nil.
Proof. intros H. destruct H; intros A B; try congruence; discriminate. Qed.

Lemma built_right_child m cub mins (data : list point) depth ax mid c l r :
  built m cub mins data depth (Node ax mid c l r) -> upper ax mid data <> [] /\ r <> Nil.
Proof.
  intros H. inversion H as [ | | | ? ? ? ? Hd Hm Hs Hl Hr]; subst.
  pose proof (upper_nonempty m cub mins data depth Hd Hs) as Hu. split; [exact Hu|].
  eapply built_not_nil; eauto.
Qed.
End UpperOnly.

Lemma getd_single id k : id <> 0%Z -> getd id [(0%Z, k)] = 0%Z.
Proof. intros H. unfold getd. cbn [lookup]. destruct (Z.eqb_spec 0 id); [congruence | reflexivity]. Qed.

Lemma built_sum_inv_all (ord : forall a b : F, fltb a b = negb (fleb b a)) m cub mins data depth t :
  m <> 0%Z -> built m cub mins data depth t -> forall id, sum_inv id t.
Proof.
  intros Hm Hb id. destruct (Z.eq_dec id 0) as [->|Hne]; [eapply built_sum_inv; eauto|].
  induction Hb; simpl; auto. repeat split; auto.
  assert (G : forall d dp s, built m cub mins d dp s -> cnt id s = 0%Z).
  { intros d dp s Hs. destruct Hs; unfold cnt; cbn [node_counts]; try reflexivity;
      apply getd_single; exact Hne. }
  rewrite (G _ _ _ Hb1), (G _ _ _ Hb2). rewrite getd_single by exact Hne. reflexivity.
Qed.

(** ---------------------------------------------------------------- as_flattened_array *)
Fixpoint zsub (a b : list Z) : list Z :=
  match a, b with
  | x :: a', y :: b' => (x - y)%Z :: zsub a' b'
  | _, _ => []
  end.

Lemma zsub_app a a' b b' : length a = length b -> zsub (a ++ a') (b ++ b') = zsub a b ++ zsub a' b'.
Proof.
  revert b. induction a as [|x a IH]; intros [|y b] H; simpl in *; try discriminate; [reflexivity|].
  f_equal. apply IH. lia.
Qed.

(** the node at pre-order position [i] *)
Fixpoint subtree_at (t : tree) (i : nat) : option tree :=
  match t with
  | Nil => None
  | Leaf _ => match i with O => Some t | S _ => None end
  | Node _ _ _ l r =>
      match i with
      | O => Some t
      | S j => if (j <? size l)%nat then subtree_at l j else subtree_at r (j - size l)
      end
  end.

Definition row0 : row N :=
  {| r_idx := O; r_parent := None; r_depth := O; r_count := 0%Z; r_diff := None; r_name := None |}.

Lemma size_pos_not_nil (t : tree) : (0 < size t)%nat -> t <> Nil.
Proof. destruct t; simpl; [lia | discriminate | discriminate]. Qed.

Section Flatten.
Variable id1 : Z.

Lemma flatten_go_length id2 t : has_id id1 t ->
  forall b p d nm, length (flatten_go id1 id2 t b p d nm) = size t.
Proof.
  induction t as [| |ax mid c l IHl r IHr]; simpl; intros H b p d nm.
  - reflexivity.
  - destruct (lookup id1 c); [reflexivity | congruence].
  - destruct H as (H & Hl & Hr). destruct (lookup id1 c); [|congruence].
    simpl. rewrite app_length, IHl, IHr by assumption. reflexivity.
Qed.

Lemma flatten_go_idx id2 t : has_id id1 t ->
  forall b p d nm, map (@r_idx N) (flatten_go id1 id2 t b p d nm) = seq b (size t).
Proof.
  induction t as [| |ax mid c l IHl r IHr]; simpl; intros H b p d nm.
  - reflexivity.
  - destruct (lookup id1 c); [reflexivity | congruence].
  - destruct H as (H & Hl & Hr). destruct (lookup id1 c); [|congruence].
    simpl. rewrite map_app, IHl, IHr by assumption. rewrite seq_app. reflexivity.
Qed.

Lemma flatten_go_counts id2 t : has_id id1 t ->
  forall b p d nm, map (@r_count N) (flatten_go id1 id2 t b p d nm) = counts_of id1 t.
Proof.
  induction t as [| |ax mid c l IHl r IHr]; intros H b p d nm.
  - reflexivity.
  - simpl in *. unfold counts_of. simpl. destruct (lookup id1 c); [reflexivity | congruence].
  - destruct H as (H & Hl & Hr). rewrite counts_of_node. simpl. unfold getd.
    destruct (lookup id1 c); [|congruence].
    simpl. rewrite map_app, IHl, IHr by assumption. reflexivity.
Qed.

Lemma flatten_go_diff j t : has_id id1 t ->
  forall b p d nm, map (@r_diff N) (flatten_go id1 (Some j) t b p d nm)
                   = map Some (zsub (counts_of j t) (counts_of id1 t)).
Proof.
  induction t as [| |ax mid c l IHl r IHr]; intros H b p d nm.
  - reflexivity.
  - simpl in *. unfold counts_of, getd. simpl. destruct (lookup id1 c); [|congruence].
    simpl. destruct (lookup j c); reflexivity.
  - destruct H as (H & Hl & Hr). rewrite !counts_of_node. simpl. unfold getd.
    destruct (lookup id1 c) as [v|]; [|congruence].
    simpl. rewrite map_app, IHl, IHr by assumption.
    rewrite zsub_app by (rewrite !length_counts_of; reflexivity). rewrite map_app.
    destruct (lookup j c); reflexivity.
Qed.

(** every row describes the node at its pre-order position, with that node's parent and depth *)
Lemma flatten_go_spec id2 t : has_id id1 t -> forall b par d nm k, (k < size t)%nat ->
  let rows := flatten_go id1 id2 t b par d nm in
  let row := nth k rows row0 in
  r_idx row = (b + k)%nat /\
  (exists s, subtree_at t k = Some s /\ lookup id1 (node_counts s) = Some (r_count row)) /\
  (k = O -> r_parent row = par /\ r_depth row = d /\ r_name row = nm) /\
  ((0 < k)%nat -> exists j ax mid c l r, (j < k)%nat /\ subtree_at t j = Some (Node ax mid c l r) /\
        r_parent row = Some (b + j)%nat /\ r_depth row = S (r_depth (nth j rows row0)) /\
        ((k = S j /\ l <> Nil /\ r_name row = Some (ax, mid, true)) \/
         (k = (S j + size l)%nat /\ r <> Nil /\ r_name row = Some (ax, mid, false)))).
Proof.
  induction t as [| |ax mid c l IHl r IHr]; intros H b par d nm k Hk; simpl in Hk.
  - lia.
  - assert (k = O) by lia. subst k. simpl in *. destruct (lookup id1 c) as [v|] eqn:E; [|congruence].
    simpl. repeat split; auto; try lia. exists (Leaf c). split; [reflexivity | exact E].
  - destruct H as (H & Hl & Hr). simpl flatten_go.
    destruct (lookup id1 c) as [v|] eqn:E; [|congruence].
    set (Rl := flatten_go id1 id2 l (S b) (Some b) (S d) (Some (ax, mid, true))).
    set (Rr := flatten_go id1 id2 r (S (b + size l)) (Some b) (S d) (Some (ax, mid, false))).
    assert (LRl : length Rl = size l) by (apply flatten_go_length; exact Hl).
    destruct k as [|k'].
    + simpl. repeat split; auto; try lia.
      * exists (Node ax mid c l r). split; [reflexivity | exact E].
    + cbn [nth]. destruct (Nat.ltb_spec k' (size l)) as [Hlt|Hge].
      * (* left subtree *)
        rewrite app_nth1 by (rewrite LRl; exact Hlt).
        destruct (IHl Hl (S b) (Some b) (S d) (Some (ax, mid, true)) k' Hlt) as (I1 & I2 & I3 & I4).
        fold Rl in I1, I2, I3, I4.
        split; [rewrite I1; lia|]. split.
        { destruct I2 as (s & Hs & Hc). exists s. split; [|exact Hc].
          simpl. destruct (Nat.ltb_spec k' (size l)); [exact Hs | lia]. }
        split; [intros; discriminate|]. intros _.
        destruct k' as [|k''].
        { destruct (I3 eq_refl) as (P & D & Nm).
          exists O, ax, mid, c, l, r. split; [lia|]. split; [reflexivity|].
          split; [rewrite P; f_equal; lia|]. split; [rewrite D; reflexivity|].
          left. split; [reflexivity|]. split; [apply size_pos_not_nil; lia | exact Nm]. }
        { destruct (I4 ltac:(lia)) as (j' & ax' & mid' & c' & l' & r' & Hj & Hs & P & D & Side).
          exists (S j'), ax', mid', c', l', r'. split; [lia|]. split.
          { simpl. destruct (Nat.ltb_spec j' (size l)); [exact Hs | lia]. }
          split; [rewrite P; f_equal; lia|]. split.
          { rewrite D. cbn [nth]. rewrite app_nth1 by (rewrite LRl; lia). reflexivity. }
          destruct Side as [(A & B & C)|(A & B & C)]; [left | right]; repeat split; auto; lia. }
      * (* right subtree *)
        rewrite app_nth2 by (rewrite LRl; exact Hge). rewrite LRl.
        assert (Hk2 : (k' - size l < size r)%nat) by lia.
        destruct (IHr Hr (S (b + size l)) (Some b) (S d) (Some (ax, mid, false)) (k' - size l)%nat Hk2)
          as (I1 & I2 & I3 & I4).
        fold Rr in I1, I2, I3, I4.
        split; [rewrite I1; lia|]. split.
        { destruct I2 as (s & Hs & Hc). exists s. split; [|exact Hc].
          simpl. destruct (Nat.ltb_spec k' (size l)); [lia | exact Hs]. }
        split; [intros; discriminate|]. intros _.
        destruct (k' - size l)%nat as [|k''] eqn:Ek.
        { destruct (I3 eq_refl) as (P & D & Nm).
          exists O, ax, mid, c, l, r. split; [lia|]. split; [reflexivity|].
          split; [rewrite P; f_equal; lia|]. split; [rewrite D; reflexivity|].
          right. split; [lia|]. split; [apply size_pos_not_nil; lia | exact Nm]. }
        { destruct (I4 ltac:(lia)) as (j' & ax' & mid' & c' & l' & r' & Hj & Hs & P & D & Side).
          exists (S (size l + j')), ax', mid', c', l', r'. split; [lia|]. split.
          { simpl. destruct (Nat.ltb_spec (size l + j') (size l)); [lia|].
            replace (size l + j' - size l)%nat with j' by lia. exact Hs. }
          split; [rewrite P; f_equal; lia|]. split.
          { rewrite D. cbn [nth]. rewrite app_nth2 by (rewrite LRl; lia). rewrite LRl.
            replace (size l + j' - size l)%nat with j' by lia. reflexivity. }
          destruct Side as [(A & B & C)|(A & B & C)]; [left | right]; repeat split; auto; lia. }
Qed.
End Flatten.

(** ---------------------------------------------------------------- filling the build data again *)
Lemma zadd_zeros l : zadd (repeat 0%Z (length l)) l = l.
Proof. induction l as [|x l IH]; simpl; [reflexivity|]. rewrite IH. reflexivity. Qed.

Lemma built_counts_other m cub mins data depth t id :
  id <> 0%Z -> built m cub mins data depth t -> counts_of id t = repeat 0%Z (size t).
Proof.
  intros Hne. induction 1; try reflexivity.
  - unfold counts_of. cbn [lookups_of map].
    change (odflt (lookup id [(0%Z, len data)])) with (getd id [(0%Z, len data)]).
    rewrite getd_single by exact Hne. reflexivity.
  - rewrite counts_of_node, getd_single by exact Hne. rewrite IHbuilt1, IHbuilt2.
    simpl. rewrite repeat_app. reflexivity.
Qed.

Lemma built_leaf_counts_other m cub mins data depth t id :
  id <> 0%Z -> built m cub mins data depth t ->
  map odflt (leaf_counts id t) = repeat 0%Z (nleaves t).
Proof.
  intros Hne. unfold leaf_counts. induction 1; try reflexivity.
  - cbn [leaves map nleaves repeat].
    change (odflt (lookup id [(0%Z, len data)])) with (getd id [(0%Z, len data)]).
    rewrite getd_single by exact Hne. reflexivity.
  - simpl. rewrite !map_app, IHbuilt1, IHbuilt2, repeat_app. reflexivity.
Qed.

Lemma built_leaf_arrivals m cub mins data depth t :
  built m cub mins data depth t -> leaf_arrivals data t = map odflt (leaf_counts 0 t).
Proof.
  unfold leaf_counts. induction 1; try reflexivity.
  simpl. rewrite !map_app, IHbuilt1, IHbuilt2. reflexivity.
Qed.

(** filling the build data under another id (fresh, or with reset) reproduces the build counts at
    every node and at every leaf — for every [N] *)
Lemma fill_build_agree m cub mins data depth t id reset :
  built m cub mins data depth t -> (reset = true \/ id <> 0%Z) ->
  counts_of id (fill data t id reset) = counts_of 0 t /\
  map odflt (leaf_counts id (fill data t id reset)) = map odflt (leaf_counts 0 t).
Proof.
  intros Hb Hc. destruct reset.
  - rewrite fill_counts_reset, leaf_counts_fill_reset.
    rewrite (built_arrivals _ _ _ _ _ _ Hb), (built_leaf_arrivals _ _ _ _ _ _ Hb). auto.
  - destruct Hc as [?|Hne]; [discriminate|].
    rewrite fill_counts_acc, leaf_counts_fill_acc.
    rewrite (built_counts_other _ _ _ _ _ _ _ Hne Hb), (built_leaf_counts_other _ _ _ _ _ _ _ Hne Hb).
    rewrite <- (length_arrivals data t), <- (length_leaf_arrivals data t), !zadd_zeros.
    rewrite (built_arrivals _ _ _ _ _ _ Hb), (built_leaf_arrivals _ _ _ _ _ _ Hb). auto.
Qed.

Lemma reset_has_id v id (t : tree) : has_id id (reset_tree v id t).
Proof.
  induction t as [| |ax mid c l IHl r IHr]; simpl; auto.
  - rewrite lookup_set_same. discriminate.
  - rewrite lookup_set_same. repeat split; auto. discriminate.
Qed.

Lemma reset_has_id_other v id id' (t : tree) : has_id id' t -> has_id id' (reset_tree v id t).
Proof.
  destruct (Z.eq_dec id' id) as [->|H]; [intros _; apply reset_has_id|].
  induction t as [| |ax mid c l IHl r IHr]; simpl; auto.
  - rewrite lookup_set_other by exact H. auto.
  - rewrite lookup_set_other by exact H. intros (A & B & C). auto.
Qed.

Lemma run_ops_has_id id ops : forall t : tree, has_id id t -> has_id id (run_ops t ops).
Proof.
  induction ops as [|o ops IH]; intros t H; simpl; [exact H|].
  apply IH. destruct o; simpl; [apply fill_has_id_other | apply reset_has_id_other]; exact H.
Qed.

(** equal leaf counts give kl_distance identical arguments *)
Lemma kl_args_equal_counts (t : tree) id1 id2 a b :
  leaf_counts id1 t = leaf_counts id2 t -> kl_args t id1 id2 = Some (a, b) -> a = b.
Proof.
  unfold kl_args. intros E. rewrite E. destruct (leaves t); [discriminate|].
  destruct (all_some (leaf_counts id2 t)); [|discriminate]. intros H; inversion H. reflexivity.
Qed.

End Generic.

(** ---------------------------------------------------------------- an exact instance: rationals *)
From Coq Require Import QArith Qabs Lqa.

Definition NumQ08 : Num := {|
  F := Q; f0 := 0%Q; f1 := 1%Q;
  fadd := Qplus; fsub := Qminus; fmul := Qmult; fdiv := Qdiv;
  fsqrt := fun x => x (* unused by the kdq-tree *); fabs := Qabs; fneg := Qopp;
  fleb := Qle_bool; fltb := fun a b => negb (Qle_bool b a); feqb := Qeq_bool;
  fofZ := inject_Z; finf := 0%Q (* unused *)
|}.

Lemma NumQ08_ord : OrdLaws NumQ08.
Proof.
  constructor; simpl.
  - intros a. apply Qle_bool_iff. apply Qle_refl.
  - intros a b c H1 H2. apply Qle_bool_iff in H1, H2. apply Qle_bool_iff. eapply Qle_trans; eauto.
  - intros a b. destruct (Qlt_le_dec b a) as [H|H].
    + right. apply Qle_bool_iff. apply Qlt_le_weak. exact H.
    + left. apply Qle_bool_iff. exact H.
  - reflexivity.
Qed.

Lemma NumQ08_mid : @MidLaws NumQ08.
Proof.
  constructor; simpl; unfold two; simpl.
  intros lo hi H. apply Qle_bool_iff in H. apply Qle_bool_iff.
  setoid_replace (lo + (hi - lo) / inject_Z 2)%Q with ((lo + hi) / 2)%Q by (unfold inject_Z; field).
  apply Qle_shift_div_l; [reflexivity | lra].
Qed.

Fixpoint qsum (l : list Q) : Q := match l with [] => 0%Q | x :: t => (x + qsum t)%Q end.

Lemma qsum_scaled (h D : Q) (l : list Z) : ~ (D == 0)%Q ->
  (qsum (map (fun c => (inject_Z c + h) / D) l) == (inject_Z (zsum l) + inject_Z (len l) * h) / D)%Q.
Proof.
  intros HD. induction l as [|c l IH].
  - simpl. unfold len; simpl. field. exact HD.
  - simpl qsum. simpl map. rewrite IH. rewrite len_cons. simpl zsum.
    rewrite !inject_Z_plus. field. exact HD.
Qed.

Lemma zsum_nonneg (l : list Z) : (forall c, In c l -> 0 <= c)%Z -> (0 <= zsum l)%Z.
Proof.
  induction l as [|c l IH]; simpl; intros H; [lia|].
  pose proof (H c (or_introl eq_refl)). assert (0 <= zsum l)%Z by (apply IH; intros; apply H; right; assumption). lia.
Qed.

(** the corrected leaf distribution sums to one (exact arithmetic) *)
Lemma distn_sums_to_one_Q (cs : list Z) :
  cs <> [] -> (forall c, In c cs -> 0 <= c)%Z -> (qsum (@distn NumQ08 cs) == 1)%Q.
Proof.
  intros Hne Hpos. unfold distn, half, two. simpl.
  assert (Hlen : (1 <= len cs)%Z) by (destruct cs; [congruence | rewrite len_cons; pose proof (len_nonneg cs); lia]).
  pose proof (zsum_nonneg cs Hpos) as Hs.
  assert (HD : ~ (inject_Z (zsum cs) + inject_Z (len cs) / inject_Z 2 == 0)%Q).
  { intros E.
    assert (0 <= inject_Z (zsum cs))%Q by (rewrite <- (Zle_Qle 0); exact Hs).
    assert (1 <= inject_Z (len cs))%Q by (rewrite <- (Zle_Qle 1); exact Hlen).
    assert (E2 : (inject_Z (len cs) / inject_Z 2 == inject_Z (len cs) * (1 # 2))%Q) by (unfold inject_Z at 2; field).
    rewrite E2 in E. lra. }
  rewrite qsum_scaled by exact HD.
  set (D := (inject_Z (zsum cs) + inject_Z (len cs) / inject_Z 2)%Q) in *.
  assert (EN : (inject_Z (zsum cs) + inject_Z (len cs) * (1 / inject_Z 2) == D)%Q)
    by (unfold D; field; discriminate).
  rewrite EN. field. exact HD.
Qed.

(** every entry of the corrected distribution is positive *)
Lemma distn_pos_Q (cs : list Z) :
  (forall c, In c cs -> 0 <= c)%Z -> forall x, In x (@distn NumQ08 cs) -> (0 < x)%Q.
Proof.
  intros Hpos x Hx. unfold distn, half, two in Hx. simpl in Hx.
  apply in_map_iff in Hx as (c & <- & Hc).
  assert (Hlen : (1 <= len cs)%Z) by (destruct cs; [contradiction | rewrite len_cons; pose proof (len_nonneg cs); lia]).
  pose proof (zsum_nonneg cs Hpos) as Hs.
  assert (0 <= inject_Z (zsum cs))%Q by (rewrite <- (Zle_Qle 0); exact Hs).
  assert (1 <= inject_Z (len cs))%Q by (rewrite <- (Zle_Qle 1); exact Hlen).
  assert (0 <= inject_Z c)%Q by (rewrite <- (Zle_Qle 0); apply Hpos; exact Hc).
  assert (E2 : (inject_Z (len cs) / inject_Z 2 == inject_Z (len cs) * (1 # 2))%Q) by (unfold inject_Z at 2; field).
  apply Qlt_shift_div_l; [rewrite E2; lra|].
  assert (E3 : (1 / inject_Z 2 == 1 # 2)%Q) by (unfold inject_Z; field).
  rewrite E3. lra.
Qed.

(** ---------------------------------------------------------------- exact instance: reals; Gibbs' inequality *)
From Coq Require Import Reals Lra.

Definition NumR08 : Num := {|
  F := R; f0 := 0%R; f1 := 1%R;
  fadd := Rplus; fsub := Rminus; fmul := Rmult; fdiv := Rdiv;
  fsqrt := sqrt; fabs := Rabs; fneg := Ropp;
  fleb := fun a b => if Rle_dec a b then true else false;
  fltb := fun a b => if Rle_dec b a then false else true;
  feqb := fun a b => if Req_EM_T a b then true else false;
  fofZ := IZR; finf := 0%R (* unused *)
|}.

Section Gibbs.
Local Open Scope R_scope.

Fixpoint rsum (l : list R) : R := match l with [] => 0 | x :: t => x + rsum t end.

(** Kullback-Leibler divergence  sum p_i ln (p_i / q_i)  of two positive vectors *)
Fixpoint kl_R (p q : list R) : R :=
  match p, q with
  | x :: p', y :: q' => x * ln (x / y) + kl_R p' q'
  | _, _ => 0
  end.

Lemma ln_le_sub1 x : 0 < x -> ln x <= x - 1.
Proof.
  intros Hx. pose proof (exp_ineq1_le (x - 1)) as H. replace (1 + (x - 1)) with x in H by ring.
  destruct H as [H|H].
  - left. rewrite <- (ln_exp (x - 1)). apply ln_increasing; assumption.
  - right. rewrite H at 1. apply ln_exp.
Qed.

Lemma kl_term x y : 0 < x -> 0 < y -> x - y <= x * ln (x / y).
Proof.
  intros Hx Hy. unfold Rdiv. rewrite ln_mult by (try apply Rinv_0_lt_compat; assumption).
  rewrite ln_Rinv by assumption.
  assert (H : ln (y / x) <= y / x - 1) by (apply ln_le_sub1; apply Rdiv_lt_0_compat; assumption).
  unfold Rdiv in H. rewrite ln_mult in H by (try apply Rinv_0_lt_compat; assumption).
  rewrite ln_Rinv in H by assumption.
  apply (Rmult_le_compat_l x) in H; [|lra].
  replace (x * (y * / x - 1)) with (y - x) in H by (field; lra). lra.
Qed.

Lemma kl_R_lower : forall p q, length p = length q ->
  (forall x, In x p -> 0 < x) -> (forall y, In y q -> 0 < y) -> rsum p - rsum q <= kl_R p q.
Proof.
  induction p as [|x p IH]; intros [|y q] Hl Hp Hq; simpl in *; try discriminate; [lra|].
  assert (H1 : x - y <= x * ln (x / y)) by (apply kl_term; [apply Hp | apply Hq]; left; reflexivity).
  assert (H2 : rsum p - rsum q <= kl_R p q) by (apply IH; [lia | intros; apply Hp; right; assumption | intros; apply Hq; right; assumption]).
  lra.
Qed.

(** Gibbs' inequality *)
Lemma kl_R_nonneg p q : length p = length q ->
  (forall x, In x p -> 0 < x) -> (forall y, In y q -> 0 < y) -> rsum p = rsum q -> 0 <= kl_R p q.
Proof. intros Hl Hp Hq Hs. pose proof (kl_R_lower p q Hl Hp Hq). lra. Qed.

Lemma kl_R_self p : (forall x, In x p -> 0 < x) -> kl_R p p = 0.
Proof.
  induction p as [|x p IH]; intros Hp; simpl; [reflexivity|].
  rewrite IH by (intros; apply Hp; right; assumption).
  assert (0 < x) by (apply Hp; left; reflexivity).
  unfold Rdiv. rewrite Rinv_r by lra. rewrite ln_1. ring.
Qed.

Lemma rsum_scaled (h D : R) (l : list Z) : D <> 0 ->
  rsum (map (fun c => (IZR c + h) / D) l) = (IZR (zsum l) + IZR (len l) * h) / D.
Proof.
  intros HD. induction l as [|c l IH].
  - simpl. unfold len; simpl. field. exact HD.
  - simpl rsum. simpl map. rewrite IH. rewrite len_cons. simpl zsum.
    rewrite !plus_IZR. field. exact HD.
Qed.

Lemma distn_R_facts (cs : list Z) :
  cs <> [] -> (forall c, In c cs -> (0 <= c)%Z) ->
  rsum (@distn NumR08 cs) = 1 /\ (forall x, In x (@distn NumR08 cs) -> 0 < x)
  /\ length (@distn NumR08 cs) = length cs.
Proof.
  intros Hne Hpos. unfold distn, half, two. simpl.
  assert (Hlen : (1 <= len cs)%Z) by (destruct cs; [congruence | rewrite len_cons; pose proof (len_nonneg cs); lia]).
  pose proof (zsum_nonneg cs Hpos) as Hs.
  apply IZR_le in Hs. apply IZR_le in Hlen.
  assert (HD : IZR (zsum cs) + IZR (len cs) / 2 <> 0) by lra.
  split; [|split].
  - rewrite rsum_scaled by exact HD. field. lra.
  - intros x Hx. apply in_map_iff in Hx as (c & <- & Hc).
    pose proof (IZR_le _ _ (Hpos c Hc)) as Hc0.
    apply Rdiv_lt_0_compat; lra.
  - apply map_length.
Qed.

(** the corrected distributions of two count vectors of the same (non-zero) length have a
    non-negative Kullback-Leibler divergence, which is 0 for equal counts *)
Lemma kl_distn_nonneg (c1 c2 : list Z) :
  c1 <> [] -> length c1 = length c2 ->
  (forall c, In c c1 -> (0 <= c)%Z) -> (forall c, In c c2 -> (0 <= c)%Z) ->
  0 <= kl_R (@distn NumR08 c1) (@distn NumR08 c2) /\ kl_R (@distn NumR08 c1) (@distn NumR08 c1) = 0.
Proof.
  intros Hne Hl H1 H2.
  assert (Hne2 : c2 <> []) by (destruct c1, c2; simpl in *; congruence).
  destruct (distn_R_facts c1 Hne H1) as (S1 & P1 & L1).
  destruct (distn_R_facts c2 Hne2 H2) as (S2 & P2 & L2).
  split; [|apply kl_R_self; assumption].
  apply kl_R_nonneg; try assumption.
  - etransitivity; [exact L1|]. rewrite Hl. symmetry. exact L2.
  - etransitivity; [exact S1|]. symmetry. exact S2.
Qed.
End Gibbs.
