(** C17, Page-Hinkley: the premise 0 < t1 of C17_ph_threshold is necessary, and for IEEE doubles so is
    "t1 * mean does not underflow".  The test is  threshold * mean < PH-difference;  with a negative running
    mean and a PH difference of exactly 0 the stricter threshold 1 alarms (mean < 0) while the looser
    threshold t1 does not as soon as t1 * mean is a zero (-0.0 < 0 is false): t1 = 0, or t1 so small that
    the product underflows.  Both witnesses are replayed on page_hinkley.py by harness/c17.py (recorded
    finding PH-zero-theta). *)
From MV Require Import Base Num NumFloat Lifecycle Lifecycle_Mono ChangeDet Corr.
From Coq Require Import PrimFloat.

Definition fd (thr : float) (xs : list float) : option nat :=
  first_drift (trace (init (PH (ph_p 0%float thr 2 false)) ph_e0) xs).

(** threshold 0 (looser) never alarms, threshold 1 (stricter) alarms at the third sample *)
Theorem C17_ph_zero_threshold_refuted :
  let xs := [(-1)%float; (-1)%float; (-1)%float; (-1)%float; (-1)%float] in
  PrimFloat.leb 0%float 1%float = true /\ fd 0%float xs = None /\ fd 1%float xs = Some 2%nat.
Proof. vm_compute. repeat split. Qed.

(** a positive (subnormal) looser threshold whose product with the mean underflows to -0.0 *)
Theorem C17_ph_underflow_refuted :
  let t1 := 0x1p-1063%float in let m := (-0x1p-33)%float in
  let xs := [m; m; m; m; m] in
  PrimFloat.ltb 0%float t1 = true /\ PrimFloat.leb t1 1%float = true /\
  fd t1 xs = None /\ fd 1%float xs = Some 2%nat.
Proof. vm_compute. repeat split. Qed.

Print Assumptions C17_ph_zero_threshold_refuted.
Print Assumptions C17_ph_underflow_refuted.
