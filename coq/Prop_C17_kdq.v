(** C17 — kdq-tree detectors: a smaller alpha never moves the first reported drift to an earlier
    sample (KdqTreeStreaming) or batch (KdqTreeBatch).  Statements only (proofs: Mono_C09.v, on the
    model KdqDet.v of property C09).

    "Same history, same seed schedule" is, in the model: the two runs receive the same inputs - rows /
    batches AND the bootstrap divergence lists carried by the inputs - and use the same oracles
    [trunc], [rint], [kl]; their parameters differ only in alpha: [aL] (looser, larger) and [aS]
    (stricter, smaller), written [with_alpha p aL] / [with_alpha p aS].
    [first_drift] / [opt_le] (Lifecycle_Mono.v): index of the first observation with state drift,
    [None] = never, and [opt_le a b] = "a is not later than b".

    Hypotheses, by theorem:
      [T]    TransLaws N (transitivity of <= and the two mixed transitivities; holds for ALL doubles);
      [C]    crit_le on every bootstrap list B carried by the inputs: B = [] or
             critical_value aL B <= critical_value aS B;
      [R]    ranks_ok on the length n of every non-empty such list:
             0 <= around((n-1)(1-aL)) <= around((n-1)(1-aS)) < n;
      [O]    OrdLaws N (total preorder: no NaN);  [M] monotone arithmetic and [rint].
    [T]+[C] => result;  [O]+[R] => [C];  [T]+[R]+pairwise comparable list elements => [C];
    [M]+ aS <= aL => the middle inequality of [R]. *)
From MV Require Import Base Num NumLaws NumFloat FloatLaws Lifecycle Lifecycle_Mono KdqTree KdqTree_Proofs
                       KdqDet KdqDet_Proofs Corr_C08 Corr_C09 Mono_C09.
From Coq Require Import QArith Qround.
From Coq Require PrimFloat.
Notation float := PrimFloat.float (only parsing).
Local Open Scope Z_scope.

Section C17kdq.
Context {N : Num}.
Local Open Scope num_scope.
Notation F := (F N).
Variable trunc : F -> F.
Variable rint : F -> Z.
Variable kl : list F -> list F -> F.
Variable p : kdq_params N.
Variables aL aS : F.
Notation pL := (with_alpha p aL).
Notation pS := (with_alpha p aS).

(** [T]+[C], streaming: the stricter run's first drift is not earlier than the looser run's ... *)
Theorem C17_kdq_stream : TransLaws N -> forall xs : list (sx N),
  Forall (fun x => crit_le rint aL aS (snd x)) xs ->
  opt_le (first_drift (ks_trace trunc rint kl pL ks_init xs))
         (first_drift (ks_trace trunc rint kl pS ks_init xs)).
Proof.
  intros T xs H.
  exact (stream_first_drift_monotone trunc rint kl T p aL aS xs ks_init ks_init (srel_init p) ltac:(discriminate) H).
Qed.

(** ... and as long as the looser run has not reported drift the observable traces coincide *)
Theorem C17_kdq_stream_same_until : TransLaws N -> forall xs : list (sx N),
  Forall (fun x => crit_le rint aL aS (snd x)) xs ->
  first_drift (ks_trace trunc rint kl pL ks_init xs) = None ->
  ks_trace trunc rint kl pS ks_init xs = ks_trace trunc rint kl pL ks_init xs.
Proof.
  intros T xs H Hn.
  exact (stream_same_until_first_drift trunc rint kl T p aL aS xs ks_init ks_init (srel_init p) ltac:(discriminate) H Hn).
Qed.

(** [T]+[C], batch (histories of set_reference / update calls) *)
Theorem C17_kdq_batch : TransLaws N -> forall ops : list (bop N),
  Forall (fun o => crit_le rint aL aS (bop_boot o)) ops ->
  opt_le (first_drift (kb_trace trunc rint kl pL kb_init ops))
         (first_drift (kb_trace trunc rint kl pS kb_init ops)).
Proof.
  intros T ops H.
  exact (batch_first_drift_monotone trunc rint kl T p aL aS ops kb_init kb_init brel_init ltac:(discriminate) H).
Qed.

Theorem C17_kdq_batch_same_until : TransLaws N -> forall ops : list (bop N),
  Forall (fun o => crit_le rint aL aS (bop_boot o)) ops ->
  first_drift (kb_trace trunc rint kl pL kb_init ops) = None ->
  kb_trace trunc rint kl pS kb_init ops = kb_trace trunc rint kl pL kb_init ops.
Proof.
  intros T ops H Hn.
  exact (batch_same_until_first_drift trunc rint kl T p aL aS ops kb_init kb_init brel_init ltac:(discriminate) H Hn).
Qed.

(** the invariant behind the streaming theorem, one update: related states (same statistics, the
    stricter persistence counter not ahead of the looser one, no counter value of the looser run's
    current streak alarmed) either stay related or the looser run reports drift *)
Theorem C17_kdq_stream_lockstep : TransLaws N -> forall (a b : kstream N) (x : sx N),
  srel p a b -> s_ds a <> DDrift -> crit_le rint aL aS (snd x) ->
  s_ds (ks_update trunc rint kl pL a x) = DDrift \/
  (s_ds (ks_update trunc rint kl pL a x) <> DDrift /\
   srel p (ks_update trunc rint kl pL a x) (ks_update trunc rint kl pS b x)).
Proof. intros T a b x. exact (upd_lockstep trunc rint kl T p aL aS a b x). Qed.

(** [O]+[R] => [C]  (quantile_nearest_antitone_alpha of C09) *)
Theorem C17_kdq_crit_le_ord : OrdLaws N -> forall B : list F,
  (B <> [] -> ranks_ok rint aL aS (len B)) -> crit_le rint aL aS B.
Proof. intros L B. exact (crit_le_ord rint aL aS L B). Qed.

(** [T]+[R]+comparable => [C]: no totality / reflexivity law is needed beyond the list's own elements *)
Theorem C17_kdq_crit_le_comparable : TransLaws N -> forall B : list F,
  comparable B -> (B <> [] -> ranks_ok rint aL aS (len B)) -> crit_le rint aL aS B.
Proof. intros T B. exact (crit_le_comparable rint aL aS T B). Qed.

(** [M] + aS <= aL => the virtual index of the stricter alpha is at least that of the looser one *)
Theorem C17_kdq_rank_order :
  (forall a b : F, fleb a b = true -> fleb (f1 - b) (f1 - a) = true) ->
  (forall c a b : F, fleb f0 c = true -> fleb a b = true -> fleb (c * a) (c * b) = true) ->
  (forall z : Z, (0 <= z)%Z -> fleb (f0 : F) (fofZ z) = true) ->
  (forall a b : F, fleb a b = true -> (rint a <= rint b)%Z) ->
  forall n, (1 <= n)%Z -> fleb aS aL = true ->
  (qrank rint n (qlevel aL) <= qrank rint n (qlevel aS))%Z.
Proof. intros H1 H2 H3 H4 n Hn H. exact (qrank_antitone rint H1 H2 H3 H4 n aS aL Hn H). Qed.

(** [O]+[M]: from aS <= aL and valid positions alone *)
Theorem C17_kdq_stream_alpha : OrdLaws N ->
  (forall a b : F, fleb a b = true -> fleb (f1 - b) (f1 - a) = true) ->
  (forall c a b : F, fleb f0 c = true -> fleb a b = true -> fleb (c * a) (c * b) = true) ->
  (forall z : Z, (0 <= z)%Z -> fleb (f0 : F) (fofZ z) = true) ->
  (forall a b : F, fleb a b = true -> (rint a <= rint b)%Z) ->
  fleb aS aL = true ->
  forall xs : list (sx N),
  Forall (fun x => snd x <> [] ->
            (0 <= qrank rint (len (snd x)) (qlevel aL))%Z /\ (qrank rint (len (snd x)) (qlevel aS) < len (snd x))%Z) xs ->
  opt_le (first_drift (ks_trace trunc rint kl pL ks_init xs))
         (first_drift (ks_trace trunc rint kl pS ks_init xs)).
Proof.
  intros L H1 H2 H3 H4 Ha xs H. apply C17_kdq_stream; [exact (TransLaws_of_OrdLaws L)|].
  eapply Forall_impl; [|exact H]. intros x Hx. apply (crit_le_ord rint aL aS L).
  intros Hne. destruct (Hx Hne) as [A B]. split; [split; [exact A|] | exact B].
  apply (qrank_antitone rint H1 H2 H3 H4); [|exact Ha].
  destruct (snd x); [congruence|]. unfold len. simpl length. lia.
Qed.

Theorem C17_kdq_batch_alpha : OrdLaws N ->
  (forall a b : F, fleb a b = true -> fleb (f1 - b) (f1 - a) = true) ->
  (forall c a b : F, fleb f0 c = true -> fleb a b = true -> fleb (c * a) (c * b) = true) ->
  (forall z : Z, (0 <= z)%Z -> fleb (f0 : F) (fofZ z) = true) ->
  (forall a b : F, fleb a b = true -> (rint a <= rint b)%Z) ->
  fleb aS aL = true ->
  forall ops : list (bop N),
  Forall (fun o => bop_boot o <> [] ->
            (0 <= qrank rint (len (bop_boot o)) (qlevel aL))%Z /\
            (qrank rint (len (bop_boot o)) (qlevel aS) < len (bop_boot o))%Z) ops ->
  opt_le (first_drift (kb_trace trunc rint kl pL kb_init ops))
         (first_drift (kb_trace trunc rint kl pS kb_init ops)).
Proof.
  intros L H1 H2 H3 H4 Ha ops H. apply C17_kdq_batch; [exact (TransLaws_of_OrdLaws L)|].
  eapply Forall_impl; [|exact H]. intros o Ho. apply (crit_le_ord rint aL aS L).
  intros Hne. destruct (Ho Hne) as [A B]. split; [split; [exact A|] | exact B].
  apply (qrank_antitone rint H1 H2 H3 H4); [|exact Ha].
  destruct (bop_boot o); [congruence|]. unfold len. simpl length. lia.
Qed.

End C17kdq.

(** ================================================================== the bit-exact float model *)
(** IEEE doubles, [trunc] = int(), [rint] = np.around as computed by Corr_C09.frint, any [kl]:
    hypotheses are (i) no NaN among the bootstrap divergences and (ii) the virtual indices of the two
    levels are positions and ordered, on the length of every non-empty bootstrap list.  (ii) is a
    decidable condition on (aL, aS, n) that the correspondence harness evaluates (chk_antitone);
    it follows from aS <= aL whenever the double operations 1 - x and (n-1) * x are monotone, which is
    not proved here for PrimFloat. *)
Definition TransLawsFloat09 : TransLaws NumFloat :=
  Build_TransLaws NumFloat float_leb_trans float_ltb_leb_trans float_leb_ltb_trans.

Definition boot_ok (aL aS : float) (B : list float) : Prop :=
  B <> [] -> Forall not_nan B /\ @ranks_ok NumFloat frint aL aS (len B).

Lemma boot_ok_crit_le aL aS B : boot_ok aL aS B -> @crit_le NumFloat frint aL aS B.
Proof.
  intros H. destruct B as [|x B]; [left; reflexivity|].
  destruct (H ltac:(discriminate)) as [Hn Hr].
  apply (@crit_le_comparable NumFloat frint aL aS TransLawsFloat09); [|intros _; exact Hr].
  intros a b Ha Hb. rewrite Forall_forall in Hn.
  exact (float_leb_total a b (Hn a Ha) (Hn b Hb)).
Qed.

Theorem C17_kdq_stream_float : forall (kl : list float -> list float -> float) (p : kdq_params NumFloat)
  (aL aS : float) (xs : list (sx NumFloat)),
  Forall (fun x : sx NumFloat => boot_ok aL aS (snd x)) xs ->
  opt_le (first_drift (@ks_trace NumFloat ftrunc frint kl (with_alpha p aL) ks_init xs))
         (first_drift (@ks_trace NumFloat ftrunc frint kl (with_alpha p aS) ks_init xs)).
Proof.
  intros kl p aL aS xs H. apply (@C17_kdq_stream NumFloat ftrunc frint kl p aL aS TransLawsFloat09).
  eapply Forall_impl; [|exact H]. intros x. apply boot_ok_crit_le.
Qed.

Theorem C17_kdq_batch_float : forall (kl : list float -> list float -> float) (p : kdq_params NumFloat)
  (aL aS : float) (ops : list (bop NumFloat)),
  Forall (fun o : bop NumFloat => boot_ok aL aS (@bop_boot NumFloat o)) ops ->
  opt_le (first_drift (@kb_trace NumFloat ftrunc frint kl (with_alpha p aL) kb_init ops))
         (first_drift (@kb_trace NumFloat ftrunc frint kl (with_alpha p aS) kb_init ops)).
Proof.
  intros kl p aL aS ops H. apply (@C17_kdq_batch NumFloat ftrunc frint kl p aL aS TransLawsFloat09).
  eapply Forall_impl; [|exact H]. intros o. apply boot_ok_crit_le.
Qed.

(** ================================================================== non-vacuity *)
(** rationals, round-half-up, constant divergence 2: with alpha = 1 the bound is the smallest
    bootstrap value (1 < 2: drift at the first update), with alpha = 0 the largest (3: never) *)
Definition q17_rint (x : Q) : Z := Qfloor (x + (1 # 2))%Q.
Definition q17_p : kdq_params NumQ08 := @Build_kdq_params NumQ08 1 0%Q 0%Q 0 0%Q 1.
Definition q17_kl (a b : list Q) : Q := 2%Q.

Example C17_kdq_batch_example :
  let ops : list (bop NumQ08) := [@BSetRef NumQ08 ([[0%Q]; [0%Q]], [1%Q; 3%Q]); @BUpdate NumQ08 ([[1%Q]; [1%Q]], [])] in
  Forall (fun o => @crit_le NumQ08 q17_rint 1%Q 0%Q (bop_boot o)) ops /\
  first_drift (@kb_trace NumQ08 (fun x => x) q17_rint q17_kl (with_alpha q17_p 1%Q) kb_init ops) = Some 1%nat /\
  first_drift (@kb_trace NumQ08 (fun x => x) q17_rint q17_kl (with_alpha q17_p 0%Q) kb_init ops) = None.
Proof.
  cbv zeta. split; [|split; vm_compute; reflexivity].
  constructor; [right; vm_compute; reflexivity|]. constructor; [left; reflexivity | constructor].
Qed.

Example C17_kdq_stream_example :
  let xs : list (sx NumQ08) := [([0%Q], [1%Q; 3%Q]); ([1%Q], [])] in
  Forall (fun x => @crit_le NumQ08 q17_rint 1%Q 0%Q (snd x)) xs /\
  first_drift (@ks_trace NumQ08 (fun x => x) q17_rint q17_kl (with_alpha q17_p 1%Q) ks_init xs) = Some 1%nat /\
  first_drift (@ks_trace NumQ08 (fun x => x) q17_rint q17_kl (with_alpha q17_p 0%Q) ks_init xs) = None.
Proof.
  cbv zeta. split; [|split; vm_compute; reflexivity].
  constructor; [right; vm_compute; reflexivity|]. constructor; [left; reflexivity | constructor].
Qed.

Print Assumptions C17_kdq_stream.
Print Assumptions C17_kdq_stream_same_until.
Print Assumptions C17_kdq_batch.
Print Assumptions C17_kdq_batch_same_until.
Print Assumptions C17_kdq_stream_lockstep.
Print Assumptions C17_kdq_crit_le_ord.
Print Assumptions C17_kdq_crit_le_comparable.
Print Assumptions C17_kdq_rank_order.
Print Assumptions C17_kdq_stream_alpha.
Print Assumptions C17_kdq_batch_alpha.
Print Assumptions C17_kdq_stream_float.
Print Assumptions C17_kdq_batch_float.
