(** Proofs about the election models (all list lengths, all integer parameters). *)
From MV Require Import Base Election.
From Coq Require Import ZifyBool.
Ltac Zify.zify_post_hook ::= Z.to_euclidean_division_equations.

Lemma cnt_drift_nil : cnt_drift [] = 0. Proof. reflexivity. Qed.
Lemma cnt_drift_cons d l :
  cnt_drift (d :: l) = (if is_drift d then 1 else 0) + cnt_drift l.
Proof. unfold cnt_drift; simpl; destruct (is_drift d); simpl length; lia. Qed.
Lemma cnt_drift_nonneg l : 0 <= cnt_drift l. Proof. unfold cnt_drift; lia. Qed.
Lemma cnt_drift_le_len l : cnt_drift l <= Z.of_nat (length l).
Proof.
  induction l as [|d t IH]; [reflexivity|]. rewrite cnt_drift_cons.
  simpl length. destruct (is_drift d); lia.
Qed.

(** ---------- simple majority ---------- *)
Lemma majority_iff l :
  simple_majority l = DDrift <-> Z.of_nat (length l) < 2 * cnt_drift l.
Proof.
  unfold simple_majority.
  destruct (Z.ltb_spec (Z.of_nat (length l) / 2) (cnt_drift l)) as [H|H]; split; intro E;
    try reflexivity; try discriminate; lia.
Qed.

Lemma majority_range l : simple_majority l = DDrift \/ simple_majority l = DNone.
Proof. unfold simple_majority. destruct (_ <? _); auto. Qed.

(** ---------- minimum approval ---------- *)
Lemma min_approval_go_iff a : forall l n,
  min_approval_go a n l = DDrift <-> l <> [] /\ a <= n + cnt_drift l.
Proof.
  induction l as [|d t IH]; intros n; simpl.
  - split; [discriminate | intros [H _]; congruence].
  - rewrite cnt_drift_cons. pose proof (cnt_drift_nonneg t) as Hn.
    set (n' := if is_drift d then n + 1 else n).
    set (k := if is_drift d then 1 else 0).
    assert (Hn' : n' = n + k) by (subst n' k; destruct (is_drift d); lia).
    clearbody n' k.
    destruct (Z.leb_spec a n') as [H|H].
    + split; [intros _ | reflexivity]. split; [discriminate|]. lia.
    + rewrite IH. destruct t as [|d' t'].
      * rewrite cnt_drift_nil. split; [intros [E _]; congruence|]. intros [_ E]. lia.
      * split; intros [_ E]; (split; [discriminate|]); lia.
Qed.

Lemma min_approval_iff_general a l :
  min_approval a l = DDrift <-> l <> [] /\ a <= cnt_drift l.
Proof. unfold min_approval. rewrite min_approval_go_iff. reflexivity. Qed.

Lemma min_approval_iff a l : 1 <= a ->
  (min_approval a l = DDrift <-> a <= cnt_drift l).
Proof.
  intros Ha. rewrite min_approval_iff_general. split; [tauto|]. intros H. split; [|exact H].
  intros ->. rewrite cnt_drift_nil in H. lia.
Qed.

Lemma min_approval_go_range a : forall l n,
  min_approval_go a n l = DDrift \/ min_approval_go a n l = DNone.
Proof. induction l as [|d t IH]; intros n; simpl; auto. destruct (_ <=? _); auto. Qed.

(** ---------- ordered approval ---------- *)
Lemma ordered_go_iff a c : forall l j, 0 <= j ->
  ordered_go a c (Z.min j (Z.max a 0)) (j - Z.min j (Z.max a 0)) l = DDrift
  <-> 1 <= cnt_drift l /\ Z.max a 0 + Z.max c 0 <= j + cnt_drift l.
Proof.
  induction l as [|d t IH]; intros j Hj; simpl.
  - rewrite cnt_drift_nil. split; [discriminate | lia].
  - rewrite cnt_drift_cons. pose proof (cnt_drift_nonneg t) as Hn.
    destruct (is_drift d).
    + set (na := Z.min j (Z.max a 0)).
      assert (Hna : (if na <? a then na + 1 else na) = Z.min (j + 1) (Z.max a 0))
        by (subst na; destruct (Z.ltb_spec (Z.min j (Z.max a 0)) a); lia).
      assert (Hnc : (if na <? a then j - na else j - na + 1) = (j + 1) - Z.min (j + 1) (Z.max a 0))
        by (subst na; destruct (Z.ltb_spec (Z.min j (Z.max a 0)) a); lia).
      rewrite Hna, Hnc.
      destruct ((a <=? Z.min (j + 1) (Z.max a 0)) && (c <=? j + 1 - Z.min (j + 1) (Z.max a 0))) eqn:E.
      * split; [intros _ | reflexivity]. lia.
      * rewrite (IH (j + 1)) by lia. lia.
    + rewrite (IH j Hj). lia.
Qed.

Lemma ordered_iff_general a c l :
  ordered_approval a c l = DDrift
  <-> 1 <= cnt_drift l /\ Z.max a 0 + Z.max c 0 <= cnt_drift l.
Proof.
  unfold ordered_approval.
  pose proof (ordered_go_iff a c l 0 (Z.le_refl 0)) as H.
  replace (Z.min 0 (Z.max a 0)) with 0 in H by lia. simpl in H. exact H.
Qed.

Lemma ordered_iff a c l : 0 <= a -> 0 <= c -> 1 <= a + c ->
  (ordered_approval a c l = DDrift <-> a + c <= cnt_drift l).
Proof. intros Ha Hc Hac. rewrite ordered_iff_general. lia. Qed.

Lemma ordered_go_range a c : forall l na nc,
  ordered_go a c na nc l = DDrift \/ ordered_go a c na nc l = DNone.
Proof.
  induction l as [|d t IH]; intros na nc; simpl; auto.
  destruct (is_drift d); auto. destruct (_ && _); auto.
Qed.

(** ---------- monotonicity: one more member in drift never retracts a verdict ---------- *)
(** [more l l']: same length, [l'] drifts wherever [l] does *)
Inductive more : list dstate -> list dstate -> Prop :=
| more_nil : more [] []
| more_cons d d' l l' : (is_drift d = true -> is_drift d' = true) -> more l l' -> more (d :: l) (d' :: l').

Lemma more_cnt l l' : more l l' -> cnt_drift l <= cnt_drift l' /\ length l = length l'.
Proof.
  induction 1 as [|d d' l l' Hd _ [IH1 IH2]]; [split; [lia|reflexivity]|].
  rewrite !cnt_drift_cons. simpl. split; [|congruence].
  destruct (is_drift d); [rewrite Hd by reflexivity; lia | destruct (is_drift d'); lia].
Qed.

Lemma majority_monotone l l' : more l l' -> simple_majority l = DDrift -> simple_majority l' = DDrift.
Proof. intros H. rewrite !majority_iff. destruct (more_cnt _ _ H) as [H1 H2]. rewrite <- H2. lia. Qed.

Lemma min_approval_monotone a l l' : more l l' -> min_approval a l = DDrift -> min_approval a l' = DDrift.
Proof.
  intros H. rewrite !min_approval_iff_general. destruct (more_cnt _ _ H) as [H1 H2].
  intros [Hn Ha]. split; [|lia]. intros ->. destruct l; [congruence|discriminate].
Qed.

Lemma ordered_monotone a c l l' : more l l' -> ordered_approval a c l = DDrift -> ordered_approval a c l' = DDrift.
Proof. intros H. rewrite !ordered_iff_general. destruct (more_cnt _ _ H) as [H1 _]. lia. Qed.

(** ---------- confirmed election ---------- *)
(** Abstract per-member specification: [r] = number of further non-warning calls in which
    the member still votes.  [spec_step] returns (voter, warning, r'). *)
Definition spec_step (wt : Z) (st : dstate) (r : Z) : bool * bool * Z :=
  if r =? 0 then
    if is_drift st then (true, false, wt)
    else if is_warn st then (false, true, 0)
    else (false, false, 0)
  else
    if is_warn st then (false, true, r) else (true, false, r - 1).

(** abstraction of the implementation's counter *)
Definition remaining (wt c : Z) : Z := if c =? 0 then 0 else wt + 1 - c.

(** one member, one call: the implementation's vote followed by the expiry loop refines the spec *)
Lemma vote_refines wt st c : 0 <= wt -> 0 <= c <= wt ->
  let '(v, w, c') := vote st c in
  let c'' := if wt <? c' then 0 else c' in
  spec_step wt st (remaining wt c) = (v, w, remaining wt c'') /\ 0 <= c'' <= wt.
Proof.
  intros Hwt Hc. unfold vote, spec_step, remaining.
  destruct st; simpl;
  destruct (Z.eqb_spec c 0) as [->|Hc0]; simpl;
    repeat match goal with
           | |- context [if ?b then _ else _] => let E := fresh "E" in destruct b eqn:E
           end; split; try lia; try (f_equal; lia); try (repeat f_equal; lia).
Qed.

Definition bounded (wt : Z) (cs : list Z) : Prop := Forall (fun c => 0 <= c <= Z.max wt 0) cs.

Lemma vote_bounded wt st c : 0 <= c <= Z.max wt 0 ->
  let '(_, _, c') := vote st c in
  0 <= (if wt <? c' then 0 else c') <= Z.max wt 0.
Proof.
  intros Hc. unfold vote.
  destruct (is_drift st && (c =? 0)); [simpl; destruct (Z.ltb_spec wt (c + 1)); lia|].
  destruct (is_warn st); [simpl; destruct (Z.ltb_spec wt c); lia|].
  destruct (negb (c =? 0)); simpl; [destruct (Z.ltb_spec wt (c + 1)); lia | destruct (Z.ltb_spec wt c); lia].
Qed.

Lemma tally_bounded p : forall sts cs, bounded (wait_time p) cs ->
  let '(_, _, cs') := tally sts cs in bounded (wait_time p) (map (expire p) cs').
Proof.
  induction sts as [|st sts IH]; intros cs Hb; simpl.
  - unfold bounded in *. rewrite Forall_forall in *. intros x Hx. apply in_map_iff in Hx as [c [<- Hin]].
    specialize (Hb c Hin). unfold expire. destruct (Z.ltb_spec (wait_time p) c); lia.
  - destruct cs as [|c cs].
    + constructor.
    + inversion Hb as [|? ? Hc Hcs]; subst.
      pose proof (vote_bounded (wait_time p) st c Hc) as Hv.
      destruct (vote st c) as [[v w] c'].
      specialize (IH cs Hcs). destruct (tally sts cs) as [[nd nw] r].
      simpl. constructor; [unfold expire; exact Hv | exact IH].
Qed.

Lemma repeat_bounded wt n : bounded wt (repeat 0 n).
Proof. unfold bounded. apply Forall_forall. intros x Hx. apply repeat_spec in Hx. lia. Qed.

Definition ostate_bounded (wt : Z) (w : option (list Z)) : Prop :=
  match w with None => True | Some cs => bounded wt cs end.

Lemma confirmed_call_bounded p w sts : ostate_bounded (wait_time p) w ->
  ostate_bounded (wait_time p) (snd (confirmed_call p w sts)).
Proof.
  intros Hw. unfold confirmed_call.
  set (cs := match w with Some cs => cs | None => repeat 0 (length sts) end).
  assert (Hb : bounded (wait_time p) cs) by (subst cs; destruct w; [exact Hw | apply repeat_bounded]).
  pose proof (tally_bounded p sts cs Hb) as H.
  destruct (tally sts cs) as [[nd nw] cs']. simpl. exact H.
Qed.

(** every counter vector reachable by any sequence of calls stays within [0, wait_time] *)
Lemma confirmed_counters_bounded p : forall calls w, ostate_bounded (wait_time p) w ->
  Forall (fun rc => bounded (wait_time p) (snd rc)) (confirmed_run p w calls).
Proof.
  induction calls as [|sts rest IH]; intros w Hw; simpl; [constructor|].
  pose proof (confirmed_call_bounded p w sts Hw) as Hb.
  destruct (confirmed_call p w sts) as [r w'] eqn:E. simpl in Hb.
  constructor.
  - simpl. destruct w'; [exact Hb | constructor].
  - apply IH. exact Hb.
Qed.

(** verdict rule *)
Definition start_counters (w : option (list Z)) (sts : list dstate) : list Z :=
  match w with Some cs => cs | None => repeat 0 (length sts) end.

Lemma confirmed_verdict p w sts nd nw cs' :
  tally sts (start_counters w sts) = (nd, nw, cs') ->
  (fst (confirmed_call p w sts) = DDrift <-> sensitivity p <= nd) /\
  (fst (confirmed_call p w sts) = DWarn <-> nd < sensitivity p <= nw + nd) /\
  (fst (confirmed_call p w sts) = DNone <-> nd < sensitivity p /\ nw + nd < sensitivity p) /\
  snd (confirmed_call p w sts) = Some (map (expire p) cs').
Proof.
  unfold confirmed_call, start_counters. intros ->. simpl.
  destruct (Z.leb_spec (sensitivity p) nd); [|destruct (Z.leb_spec (sensitivity p) (nw + nd))];
    repeat split; intros; try discriminate; try reflexivity; try lia.
Qed.

(** the tallies are exactly the numbers of voters / warnings as decided member by member *)
Fixpoint votes_of (sts : list dstate) (cs : list Z) : list (bool * bool * Z) :=
  match sts, cs with
  | st :: sts', c :: cs' => vote st c :: votes_of sts' cs'
  | _, _ => []
  end.
Definition cntb {A} (f : A -> bool) (l : list A) : Z := Z.of_nat (length (filter f l)).

Lemma tally_counts : forall sts cs, length sts = length cs ->
  let '(nd, nw, cs') := tally sts cs in
  nd = cntb (fun x => fst (fst x)) (votes_of sts cs) /\
  nw = cntb (fun x => snd (fst x)) (votes_of sts cs) /\
  cs' = map snd (votes_of sts cs).
Proof.
  induction sts as [|st sts IH]; intros [|c cs] Hl; simpl in *; try discriminate; auto.
  injection Hl as Hl. specialize (IH cs Hl).
  destruct (vote st c) as [[v w] c']. destruct (tally sts cs) as [[nd nw] r].
  destruct IH as [-> [-> ->]]. unfold cntb. simpl.
  destruct v, w; simpl length; repeat split; try lia.
Qed.

(** ---------- refinement of whole call histories to the per-member waiting specification ---------- *)
Fixpoint spec_tally (wt : Z) (sts : list dstate) (rs : list Z) : Z * Z * list Z :=
  match sts, rs with
  | st :: sts', r :: rs' =>
      let '(v, w, r') := spec_step wt st r in
      let '(nd, nw, t) := spec_tally wt sts' rs' in
      ((if v then nd + 1 else nd), (if w then nw + 1 else nw), r' :: t)
  | _, _ => (0, 0, rs)
  end.

Definition spec_call (p : confirmed) (rs : list Z) (sts : list dstate) : dstate * list Z :=
  let '(nd, nw, rs') := spec_tally (wait_time p) sts rs in
  ((if sensitivity p <=? nd then DDrift
    else if sensitivity p <=? nw + nd then DWarn else DNone), rs').

Fixpoint spec_run (p : confirmed) (rs : list Z) (calls : list (list dstate)) : list (dstate * list Z) :=
  match calls with
  | [] => []
  | sts :: rest => let '(r, rs') := spec_call p rs sts in (r, rs') :: spec_run p rs' rest
  end.

Definition in_range (wt : Z) (cs : list Z) : Prop := Forall (fun c => 0 <= c <= wt) cs.

Lemma tally_refines wt : 0 <= wt -> forall sts cs, in_range wt cs ->
  forall nd nw cs', tally sts cs = (nd, nw, cs') ->
  let cs'' := map (fun c => if wt <? c then 0 else c) cs' in
  spec_tally wt sts (map (remaining wt) cs) = (nd, nw, map (remaining wt) cs'') /\ in_range wt cs''.
Proof.
  intros Hwt. induction sts as [|st sts IH]; intros cs Hr nd nw cs' E.
  - simpl in E. injection E as <- <- <-. simpl. split.
    + f_equal. rewrite map_map. apply map_ext_in. intros c Hc.
      unfold in_range in Hr. rewrite Forall_forall in Hr. specialize (Hr c Hc).
      destruct (Z.ltb_spec wt c); [lia | reflexivity].
    + unfold in_range in *. rewrite Forall_forall in *. intros x Hx.
      apply in_map_iff in Hx as [c [<- Hc]]. specialize (Hr c Hc). destruct (Z.ltb_spec wt c); lia.
  - destruct cs as [|c cs].
    + simpl in E. injection E as <- <- <-. simpl. split; [reflexivity | constructor].
    + inversion Hr as [|? ? Hc Hcs]; subst. simpl in E.
      pose proof (vote_refines wt st c Hwt Hc) as Hv.
      destruct (vote st c) as [[v w] c'].
      destruct (tally sts cs) as [[nd0 nw0] r0] eqn:Et.
      injection E as <- <- <-.
      destruct (IH cs Hcs nd0 nw0 r0 Et) as [IH1 IH2].
      destruct Hv as [Hv1 Hv2]. simpl. rewrite Hv1, IH1. split; [reflexivity|].
      constructor; assumption.
Qed.

Theorem confirmed_refines_spec p : 0 <= wait_time p -> forall calls cs, in_range (wait_time p) cs ->
  map (fun rc => (fst rc, map (remaining (wait_time p)) (snd rc))) (confirmed_run p (Some cs) calls)
  = spec_run p (map (remaining (wait_time p)) cs) calls.
Proof.
  intros Hwt. induction calls as [|sts rest IH]; intros cs Hr; [reflexivity|].
  simpl. unfold confirmed_call, spec_call.
  destruct (tally sts cs) as [[nd nw] cs'] eqn:Et.
  destruct (tally_refines (wait_time p) Hwt sts cs Hr nd nw cs' Et) as [H1 H2].
  rewrite H1. simpl. f_equal. apply IH. exact H2.
Qed.

Lemma map_remaining_repeat wt n : map (remaining wt) (repeat 0 n) = repeat 0 n.
Proof. induction n as [|n IHn]; [reflexivity|]. simpl. rewrite IHn. reflexivity. Qed.

(** first call: counters start at zero, i.e. nobody is waiting *)
Corollary confirmed_refines_spec_init p sts calls : 0 <= wait_time p ->
  map (fun rc => (fst rc, map (remaining (wait_time p)) (snd rc))) (confirmed_run p None (sts :: calls))
  = spec_run p (repeat 0 (length sts)) (sts :: calls).
Proof.
  intros Hwt.
  assert (Hr : in_range (wait_time p) (repeat 0 (length sts))).
  { unfold in_range. apply Forall_forall. intros x Hx. apply repeat_spec in Hx. lia. }
  pose proof (confirmed_refines_spec p Hwt (sts :: calls) _ Hr) as H.
  assert (Hm : map (remaining (wait_time p)) (repeat 0 (length sts)) = repeat 0 (length sts)).
  { apply map_remaining_repeat. }
  rewrite Hm in H. rewrite <- H. reflexivity.
Qed.

(** non-vacuity: a concrete history in which a member waits, is held by a warning, and expires *)
Example confirmed_example :
  confirmed_run {| sensitivity := 2; wait_time := 2 |} None
     [[DDrift; DNone; DNone]; [DWarn; DNone; DDrift]; [DNone; DNone; DNone]; [DNone; DNone; DNone]; [DNone; DWarn; DNone]]
  = [(DNone, [1; 0; 0]); (DWarn, [1; 0; 1]); (DDrift, [2; 0; 2]); (DDrift, [0; 0; 0]); (DNone, [0; 0; 0])].
Proof. vm_compute. reflexivity. Qed.
