(** Lemmas about the NNSP / NN-DVI model (Nnsp.v). *)
From MV Require Import Base Lifecycle Lifecycle_Proofs Nnsp.
From Coq Require Import QArith Qabs Sorted ZifyBool Lia Lqa.
Open Scope Z_scope.

(** ---------- the lexicographic order ---------- *)
Lemma lex_cmp_eq : forall a b, lex_cmp a b = Eq <-> a = b.
Proof.
  induction a as [|x a IH]; intros [|y b]; simpl; split; try congruence; try reflexivity.
  - destruct (x ?= y) eqn:E; try discriminate. intros H. apply Z.compare_eq in E. apply IH in H. congruence.
  - intros H. inversion H; subst. rewrite Z.compare_refl. apply IH. reflexivity.
Qed.

Lemma lex_cmp_refl a : lex_cmp a a = Eq.
Proof. apply lex_cmp_eq. reflexivity. Qed.

Lemma lex_cmp_antisym : forall a b, lex_cmp b a = CompOpp (lex_cmp a b).
Proof.
  induction a as [|x a IH]; intros [|y b]; simpl; try reflexivity.
  rewrite (Z.compare_antisym x y). destruct (x ?= y); simpl; auto.
Qed.

Lemma lex_cmp_lt_trans : forall a b c, lex_cmp a b = Lt -> lex_cmp b c = Lt -> lex_cmp a c = Lt.
Proof.
  induction a as [|x a IH]; intros [|y b] [|z c]; simpl; try congruence.
  destruct (x ?= y) eqn:E1; try discriminate; destruct (y ?= z) eqn:E2; try discriminate; intros H1 H2.
  - apply Z.compare_eq in E1, E2. subst. rewrite Z.compare_refl. eapply IH; eauto.
  - apply Z.compare_eq in E1. subst. rewrite E2. reflexivity.
  - apply Z.compare_eq in E2. subst. rewrite E1. reflexivity.
  - rewrite Z.compare_lt_iff in E1. rewrite Z.compare_lt_iff in E2.
    assert (x < z) as H by lia.
    apply Z.compare_lt_iff in H. rewrite H. reflexivity.
Qed.

Lemma pt_eqb_eq a b : pt_eqb a b = true <-> a = b.
Proof.
  unfold pt_eqb. rewrite <- lex_cmp_eq. destruct (lex_cmp a b); split; congruence.
Qed.

Lemma pt_eqb_refl a : pt_eqb a a = true.
Proof. apply pt_eqb_eq. reflexivity. Qed.

(** ---------- sorting with de-duplication ---------- *)
Definition plt (a b : point) : Prop := lex_cmp a b = Lt.
Definition sorted (l : list point) : Prop := StronglySorted plt l.

Lemma plt_irrefl a : ~ plt a a.
Proof. unfold plt. rewrite lex_cmp_refl. discriminate. Qed.

Lemma uinsert_In p q l : In p (uinsert q l) <-> p = q \/ In p l.
Proof.
  induction l as [|r l IH]; simpl.
  - intuition.
  - destruct (lex_cmp q r) eqn:E; simpl.
    + apply lex_cmp_eq in E. subst. intuition.
    + intuition.
    + rewrite IH. intuition.
Qed.

Lemma uinsert_sorted q l : sorted l -> sorted (uinsert q l).
Proof.
  unfold sorted. induction l as [|r l IH]; simpl; intros H.
  - constructor; constructor.
  - inversion H as [|? ? Hs Hf]; subst.
    destruct (lex_cmp q r) eqn:E.
    + exact H.
    + constructor; [exact H|]. constructor; [exact E|].
      eapply Forall_impl; [|exact Hf]. intros a Ha. eapply lex_cmp_lt_trans; eauto.
    + constructor; [apply IH; exact Hs|].
      apply Forall_forall. intros a Ha. apply uinsert_In in Ha as [->|Ha].
      * unfold plt. rewrite lex_cmp_antisym, E. reflexivity.
      * rewrite Forall_forall in Hf. apply Hf. exact Ha.
Qed.

Lemma usort_In p l : In p (usort l) <-> In p l.
Proof.
  induction l as [|q l IH]; simpl; [tauto|]. rewrite uinsert_In, IH. intuition.
Qed.

Lemma usort_sorted l : sorted (usort l).
Proof. induction l as [|q l IH]; simpl; [constructor|apply uinsert_sorted; exact IH]. Qed.

Lemma sorted_NoDup l : sorted l -> NoDup l.
Proof.
  induction 1 as [|a l Hs IH Hf]; constructor; [|exact IH].
  intros Hin. rewrite Forall_forall in Hf. exact (plt_irrefl a (Hf a Hin)).
Qed.

(** a strictly sorted list is determined by its set of elements *)
Lemma sorted_unique : forall l1 l2, sorted l1 -> sorted l2 ->
  (forall p, In p l1 <-> In p l2) -> l1 = l2.
Proof.
  induction l1 as [|a l1 IH]; intros [|b l2] H1 H2 Hin.
  - reflexivity.
  - exfalso. apply (proj2 (Hin b)). left; reflexivity.
  - exfalso. apply (proj1 (Hin a)). left; reflexivity.
  - inversion H1 as [|? ? Hs1 Hf1]; inversion H2 as [|? ? Hs2 Hf2]; subst.
    rewrite Forall_forall in Hf1, Hf2.
    assert (a = b) as ->.
    { destruct (proj1 (Hin a) (or_introl eq_refl)) as [E|Ha]; [congruence|].
      destruct (proj2 (Hin b) (or_introl eq_refl)) as [E|Hb]; [congruence|].
      exfalso. apply (plt_irrefl a). eapply lex_cmp_lt_trans; [apply Hf1; exact Hb|apply Hf2; exact Ha]. }
    f_equal. apply IH; try assumption.
    intros p. split; intros Hp.
    + destruct (proj1 (Hin p) (or_intror Hp)) as [E|H]; [|exact H].
      subst. exfalso. exact (plt_irrefl p (Hf1 p Hp)).
    + destruct (proj2 (Hin p) (or_intror Hp)) as [E|H]; [|exact H].
      subst. exfalso. exact (plt_irrefl p (Hf2 p Hp)).
Qed.

(** ---------- inverse index and one-hot vectors ---------- *)
Lemma index_of_In p l : In p l -> (index_of p l < length l)%nat /\ nth (index_of p l) l [] = p.
Proof.
  induction l as [|q l IH]; simpl; [tauto|]. intros H.
  destruct (pt_eqb p q) eqn:E.
  - apply pt_eqb_eq in E. subst. split; [lia|reflexivity].
  - destruct H as [->|H]; [rewrite pt_eqb_refl in E; discriminate|].
    destruct (IH H) as [H1 H2]. split; [lia|exact H2].
Qed.

Lemma index_of_nth : forall l j, NoDup l -> (j < length l)%nat -> index_of (nth j l []) l = j.
Proof.
  induction l as [|q l IH]; simpl; intros j Hnd Hj; [lia|].
  inversion Hnd as [|? ? Hq Hnd']; subst.
  destruct j as [|j].
  - rewrite pt_eqb_refl. reflexivity.
  - destruct (pt_eqb (nth j l []) q) eqn:E.
    + apply pt_eqb_eq in E. exfalso. apply Hq. rewrite <- E. apply nth_In. lia.
    + f_equal. apply IH; [exact Hnd'|lia].
Qed.

Lemma onehot_length n idx : length (onehot n idx) = n.
Proof. unfold onehot. rewrite map_length, seq_length. reflexivity. Qed.

Lemma onehot_nth n idx j : (j < n)%nat ->
  nth j (onehot n idx) 0 = if existsb (Nat.eqb j) idx then 1 else 0.
Proof.
  intros H. unfold onehot.
  set (f := fun j : nat => if existsb (Nat.eqb j) idx then 1 else 0).
  rewrite (nth_indep _ 0 (f O)) by (rewrite map_length, seq_length; exact H).
  rewrite (map_nth f), seq_nth by exact H. reflexivity.
Qed.

Lemma onehot_one n idx j : (j < n)%nat -> (nth j (onehot n idx) 0 = 1 <-> In j idx).
Proof.
  intros H. rewrite onehot_nth by exact H.
  destruct (existsb (Nat.eqb j) idx) eqn:E.
  - apply existsb_exists in E as (x & Hx & Ex). apply Nat.eqb_eq in Ex. subst. tauto.
  - split; [discriminate|]. intros Hin. exfalso.
    assert (existsb (Nat.eqb j) idx = true) as E'
      by (apply existsb_exists; exists j; split; [exact Hin|apply Nat.eqb_refl]).
    congruence.
Qed.

Lemma onehot_01 n idx j : nth j (onehot n idx) 0 = 0 \/ nth j (onehot n idx) 0 = 1.
Proof.
  destruct (Nat.lt_ge_cases j n) as [H|H].
  - rewrite onehot_nth by exact H. destruct (existsb _ _); auto.
  - left. apply nth_overflow. rewrite onehot_length. exact H.
Qed.

Section Build.
Variables s1 s2 : list point.
Let D := build_D s1 s2.

Lemma build_D_In p : In p (build_D s1 s2) <-> In p s1 \/ In p s2.
Proof. unfold build_D, build_data. rewrite usort_In, in_app_iff. tauto. Qed.

Lemma build_D_sorted : sorted (build_D s1 s2).
Proof. apply usort_sorted. Qed.

Lemma build_D_NoDup : NoDup (build_D s1 s2).
Proof. apply sorted_NoDup, build_D_sorted. Qed.

Lemma inverse_first : firstn (length s1) (build_inverse s1 s2) = map (fun p => index_of p D) s1.
Proof.
  unfold build_inverse, build_data. rewrite map_app.
  rewrite <- (map_length (fun p => index_of p (build_D s1 s2)) s1) at 1.
  rewrite firstn_app, Nat.sub_diag, firstn_all. simpl. rewrite app_nil_r. reflexivity.
Qed.

Lemma inverse_second : skipn (length s1) (build_inverse s1 s2) = map (fun p => index_of p D) s2.
Proof.
  unfold build_inverse, build_data. rewrite map_app.
  rewrite <- (map_length (fun p => index_of p (build_D s1 s2)) s1) at 1.
  rewrite skipn_app, Nat.sub_diag, skipn_all. reflexivity.
Qed.

Lemma member_index (s : list point) j : (forall p, In p s -> In p D) -> (j < length D)%nat ->
  (In j (map (fun p => index_of p D) s) <-> In (nth j D []) s).
Proof.
  intros Hsub Hj. rewrite in_map_iff. split.
  - intros (p & E & Hp). destruct (index_of_In p D (Hsub p Hp)) as [_ H]. rewrite E in H. rewrite H. exact Hp.
  - intros H. exists (nth j D []). split; [|exact H].
    apply index_of_nth; [apply build_D_NoDup|exact Hj].
Qed.

Lemma v1_length : length (build_v1 s1 s2) = length D.
Proof. apply onehot_length. Qed.
Lemma v2_length : length (build_v2 s1 s2) = length D.
Proof. apply onehot_length. Qed.

Lemma v1_exact j : (j < length D)%nat -> (nth j (build_v1 s1 s2) 0 = 1 <-> In (nth j D []) s1).
Proof.
  intros Hj. unfold build_v1. rewrite onehot_one by exact Hj. rewrite inverse_first.
  apply member_index; [|exact Hj]. intros p Hp. apply build_D_In. left; exact Hp.
Qed.

Lemma v2_exact j : (j < length D)%nat -> (nth j (build_v2 s1 s2) 0 = 1 <-> In (nth j D []) s2).
Proof.
  intros Hj. unfold build_v2. rewrite onehot_one by exact Hj. rewrite inverse_second.
  apply member_index; [|exact Hj]. intros p Hp. apply build_D_In. right; exact Hp.
Qed.

Lemma v1_01 j : nth j (build_v1 s1 s2) 0 = 0 \/ nth j (build_v1 s1 s2) 0 = 1.
Proof. apply onehot_01. Qed.
Lemma v2_01 j : nth j (build_v2 s1 s2) 0 = 0 \/ nth j (build_v2 s1 s2) 0 = 1.
Proof. apply onehot_01. Qed.

(** every pooled point belongs to at least one sample *)
Lemma v_cover j : (j < length D)%nat -> 1 <= nth j (build_v1 s1 s2) 0 + nth j (build_v2 s1 s2) 0.
Proof.
  intros Hj. assert (In (nth j D []) D) as H by (apply nth_In; exact Hj).
  apply build_D_In in H. destruct H as [H|H].
  - apply (v1_exact j Hj) in H. destruct (v2_01 j); lia.
  - apply (v2_exact j Hj) in H. destruct (v1_01 j); lia.
Qed.
End Build.

(** ---------- the k-NN checker ---------- *)
Definition knn_spec (k : Z) (D : list point) (A : list (list Z)) : Prop :=
  length A = length D /\
  forall i, (i < length D)%nat ->
    let row := nth i A [] in
    length row = length D /\
    (forall j, nth j row 0 = 0 \/ nth j row 0 = 1) /\
    zsum row = k /\
    nth i row 0 = 1 /\
    forall j l, (j < length D)%nat -> (l < length D)%nat -> nth j row 0 = 1 -> nth l row 0 = 0 ->
      sqdist (nth i D []) (nth j D []) <= sqdist (nth i D []) (nth l D []).

Lemma is01_spec x : is01 x = true <-> x = 0 \/ x = 1.
Proof. unfold is01. lia. Qed.

Lemma forallb_is01_nth row : forallb is01 row = true -> forall j, nth j row 0 = 0 \/ nth j row 0 = 1.
Proof.
  intros H j. destruct (Nat.lt_ge_cases j (length row)) as [Hj|Hj].
  - rewrite forallb_forall in H. apply is01_spec, H, nth_In, Hj.
  - left. apply nth_overflow, Hj.
Qed.

Lemma zsum_count row : forallb is01 row = true -> zsum row = Z.of_nat (count_occ Z.eq_dec row 1).
Proof.
  induction row as [|x row IH]; simpl; [reflexivity|].
  intros H. apply andb_true_iff in H as [Hx Hr]. apply is01_spec in Hx. specialize (IH Hr).
  destruct (Z.eq_dec x 1); lia.
Qed.

Lemma sqdist_nil_r p : sqdist p [] = 0.
Proof. destruct p; reflexivity. Qed.

Lemma sqdist_nth p D j : nth j (map (sqdist p) D) 0 = sqdist p (nth j D []).
Proof. rewrite <- (sqdist_nil_r p) at 1. apply map_nth. Qed.

Lemma row_order_ok_sound ad : row_order_ok ad = true ->
  forall c u, In c ad -> In u ad -> fst c = 1 -> fst u = 0 -> snd c <= snd u.
Proof.
  unfold row_order_ok. intros H c u Hc Hu E1 E0.
  rewrite forallb_forall in H. specialize (H c Hc). rewrite forallb_forall in H. specialize (H u Hu).
  rewrite E1, E0 in H. simpl in H. lia.
Qed.

Lemma row_ok_sound k D i row : row_ok k D i row = true ->
  length row = length D /\
  (forall j, nth j row 0 = 0 \/ nth j row 0 = 1) /\
  zsum row = k /\
  nth i row 0 = 1 /\
  forall j l, (j < length D)%nat -> (l < length D)%nat -> nth j row 0 = 1 -> nth l row 0 = 0 ->
    sqdist (nth i D []) (nth j D []) <= sqdist (nth i D []) (nth l D []).
Proof.
  unfold row_ok. intros H.
  apply andb_true_iff in H as [H H5]. apply andb_true_iff in H as [H H4].
  apply andb_true_iff in H as [H H3]. apply andb_true_iff in H as [H1 H2].
  apply Nat.eqb_eq in H1. apply Z.eqb_eq in H3. apply Z.eqb_eq in H4.
  split; [exact H1|]. split; [apply forallb_is01_nth; exact H2|]. split; [exact H3|]. split; [exact H4|].
  intros j l Hj Hl Ej El.
  assert (length (map (sqdist (nth i D [])) D) = length D) as Hds by apply map_length.
  assert (forall j, (j < length D)%nat ->
            In (nth j row 0, sqdist (nth i D []) (nth j D [])) (combine row (map (sqdist (nth i D [])) D))) as Hin.
  { intros j' Hj'. rewrite <- sqdist_nth. rewrite <- combine_nth by lia.
    apply nth_In. rewrite combine_length. lia. }
  exact (row_order_ok_sound _ H5 _ _ (Hin j Hj) (Hin l Hl) Ej El).
Qed.

Lemma rows_ok_nth k D : forall A i0, rows_ok k D i0 A = true ->
  forall i, (i < length A)%nat -> row_ok k D (i0 + i) (nth i A []) = true.
Proof.
  induction A as [|row A IH]; simpl; intros i0 H i Hi; [lia|].
  apply andb_true_iff in H as [H1 H2]. destruct i as [|i].
  - rewrite Nat.add_0_r. exact H1.
  - rewrite <- Nat.add_succ_comm. apply IH; [exact H2|lia].
Qed.

Lemma knn_ok_sound k D A : knn_ok k D A = true -> knn_spec k D A.
Proof.
  unfold knn_ok. intros H. apply andb_true_iff in H as [H1 H2]. apply Nat.eqb_eq in H1.
  split; [exact H1|]. intros i Hi. cbv zeta.
  apply row_ok_sound. apply (rows_ok_nth k D A O H2 i). lia.
Qed.

(** ---------- exact arithmetic of the distance ---------- *)
Definition nonneg (x : Z) : Prop := 0 <= x.
Definition unitq (q : Q) : Prop := (0 <= q /\ q <= 1)%Q.

Lemma dterm_sym a b : dterm a b = dterm b a.
Proof.
  unfold dterm. rewrite (Z.add_comm b a). replace (Z.abs (b - a)) with (Z.abs (a - b)) by lia. reflexivity.
Qed.

Lemma dterm_range a b : 0 <= a -> 0 <= b -> unitq (dterm a b).
Proof.
  intros Ha Hb. unfold unitq, dterm.
  destruct (a + b) as [|p|p] eqn:E.
  - assert (a = 0) by lia. assert (b = 0) by lia. subst. split; discriminate.
  - assert (Z.abs (a - b) <= Z.pos p) as H by lia.
    remember (Z.abs (a - b)) as t. assert (0 <= t) by lia.
    unfold Qdiv, Qinv, Qmult, Qle, inject_Z. simpl. split; lia.
  - lia.
Qed.

Lemma dterm_diag a : (dterm a a == 0)%Q.
Proof. unfold dterm. rewrite Z.sub_diag. simpl. unfold Qdiv. apply Qmult_0_l. Qed.

Lemma map2_length {A B C} (f : A -> B -> C) : forall l1 l2,
  length (map2 f l1 l2) = Nat.min (length l1) (length l2).
Proof. induction l1 as [|x l1 IH]; intros [|y l2]; simpl; auto. Qed.

Lemma map2_comm {A C} (f : A -> A -> C) : (forall a b, f a b = f b a) ->
  forall l1 l2, map2 f l1 l2 = map2 f l2 l1.
Proof. intros H. induction l1 as [|x l1 IH]; intros [|y l2]; simpl; auto. rewrite H, IH. reflexivity. Qed.

Lemma map2_dterm_range : forall m1 m2, Forall nonneg m1 -> Forall nonneg m2 ->
  Forall unitq (map2 dterm m1 m2).
Proof.
  induction m1 as [|a m1 IH]; intros [|b m2] H1 H2; simpl; try constructor.
  - inversion H1; inversion H2; subst. apply dterm_range; assumption.
  - inversion H1; inversion H2; subst. apply IH; assumption.
Qed.

Lemma qsum_range l : Forall unitq l -> (0 <= qsum l /\ qsum l <= inject_Z (Z.of_nat (length l)))%Q.
Proof.
  induction 1 as [|q l [Hq0 Hq1] _ [IH0 IH1]]; simpl qsum; simpl length.
  - split; apply Qle_refl.
  - rewrite Nat2Z.inj_succ. unfold Z.succ. rewrite inject_Z_plus.
    change (inject_Z 1) with 1%Q. split; lra.
Qed.

Lemma qsum_diag m : (qsum (map2 dterm m m) == 0)%Q.
Proof.
  induction m as [|a m IH]; simpl; [reflexivity|]. rewrite IH, dterm_diag. reflexivity.
Qed.

Lemma zsum_nonneg l : Forall nonneg l -> 0 <= zsum l.
Proof. induction 1 as [|x l Hx _ IH]; simpl; [lia|]. unfold nonneg in Hx. lia. Qed.

Lemma nth_nonneg l j : Forall nonneg l -> 0 <= nth j l 0.
Proof.
  intros H. destruct (Nat.lt_ge_cases j (length l)) as [Hj|Hj].
  - rewrite Forall_forall in H. apply H, nth_In, Hj.
  - rewrite nth_overflow by exact Hj. lia.
Qed.

Lemma zsum_ge_nth l i : Forall nonneg l -> nth i l 0 <= zsum l.
Proof.
  intros H. revert i. induction H as [|x l Hx Hl IH]; intros [|i]; simpl; try lia.
  - pose proof (zsum_nonneg l Hl). lia.
  - specialize (IH i). unfold nonneg in Hx. lia.
Qed.

Lemma vecmat_length v M : length (vecmat v M) = ncols M.
Proof. unfold vecmat. rewrite map_length, seq_length. reflexivity. Qed.

Lemma vecmat_nth v M j : (j < ncols M)%nat ->
  nth j (vecmat v M) 0 = zsum (map (fun vr => fst vr * nth j (snd vr) 0) (combine v M)).
Proof.
  intros H. unfold vecmat.
  set (f := fun j : nat => zsum (map (fun vr => fst vr * nth j (snd vr) 0) (combine v M))).
  rewrite (nth_indep _ 0 (f O)) by (rewrite map_length, seq_length; exact H).
  rewrite (map_nth f), seq_nth by exact H. reflexivity.
Qed.

Lemma vecmat_terms_nonneg v M j : Forall nonneg v -> Forall (Forall nonneg) M ->
  Forall nonneg (map (fun vr => fst vr * nth j (snd vr) 0) (combine v M)).
Proof.
  intros Hv HM. apply Forall_forall. intros x Hx. apply in_map_iff in Hx as ([vi row] & <- & Hin).
  simpl. rewrite Forall_forall in Hv, HM.
  pose proof (Hv vi (in_combine_l _ _ _ _ Hin)) as H1.
  pose proof (nth_nonneg row j (HM row (in_combine_r _ _ _ _ Hin))) as H2.
  unfold nonneg in *. lia.
Qed.

Lemma vecmat_nonneg v M : Forall nonneg v -> Forall (Forall nonneg) M -> Forall nonneg (vecmat v M).
Proof.
  intros Hv HM. unfold vecmat. apply Forall_forall. intros x Hx.
  apply in_map_iff in Hx as (j & <- & _). apply zsum_nonneg, vecmat_terms_nonneg; assumption.
Qed.

Lemma nnps_distance_sym M v1 v2 : length v1 = length v2 ->
  nnps_distance M v1 v2 = nnps_distance M v2 v1.
Proof.
  intros H. unfold nnps_distance. rewrite H. rewrite (map2_comm dterm dterm_sym). reflexivity.
Qed.

Lemma nnps_distance_range M v1 v2 :
  Forall nonneg v1 -> Forall nonneg v2 -> Forall (Forall nonneg) M -> (ncols M <= length v1)%nat ->
  unitq (nnps_distance M v1 v2).
Proof.
  intros H1 H2 HM Hn. unfold nnps_distance, unitq.
  pose proof (qsum_range _ (map2_dterm_range _ _ (vecmat_nonneg v1 M H1 HM) (vecmat_nonneg v2 M H2 HM))) as [S0 S1].
  rewrite map2_length, !vecmat_length, Nat.min_id in S1.
  set (sm := qsum (map2 dterm (vecmat v1 M) (vecmat v2 M))) in *.
  assert (inject_Z (Z.of_nat (ncols M)) <= inject_Z (Z.of_nat (length v1)))%Q as Hle
    by (rewrite <- Zle_Qle; lia).
  destruct (length v1) as [|n].
  - simpl. unfold Qdiv. simpl Qinv. split; [rewrite Qmult_0_r; apply Qle_refl|rewrite Qmult_0_r; discriminate].
  - assert (0 < inject_Z (Z.of_nat (S n)))%Q as Hpos by (change 0%Q with (inject_Z 0); rewrite <- Zlt_Qlt; lia).
    split.
    + apply Qle_shift_div_l; [exact Hpos|]. lra.
    + apply Qle_shift_div_r; [exact Hpos|]. lra.
Qed.

Lemma nnps_distance_diag M v : (nnps_distance M v v == 0)%Q.
Proof. unfold nnps_distance. rewrite qsum_diag. unfold Qdiv. apply Qmult_0_l. Qed.

(** ---------- the weight-normalised matrix of a k-NN graph is the graph itself ---------- *)
Lemma lcm_reduce_const k ws : 0 < k -> ws <> [] -> Forall (eq k) ws -> lcm_reduce ws = k.
Proof.
  intros Hk Hne H. induction H as [|w ws Hw Hws IH]; [congruence|].
  subst w. simpl. destruct ws as [|w' ws].
  - simpl. rewrite Z.lcm_1_r. lia.
  - rewrite IH by discriminate. rewrite Z.lcm_diag. lia.
Qed.

Lemma knn_rows k D A : knn_spec k D A -> forall row, In row A ->
  length row = length D /\ (forall j, nth j row 0 = 0 \/ nth j row 0 = 1) /\ zsum row = k.
Proof.
  intros [HL H] row Hin. apply (In_nth _ _ []) in Hin as (i & Hi & <-).
  rewrite HL in Hi. destruct (H i Hi) as (H1 & H2 & H3 & _). auto.
Qed.

Lemma row01_nonneg row : (forall j, nth j row 0 = 0 \/ nth j row 0 = 1) -> Forall nonneg row.
Proof.
  intros H. apply Forall_forall. intros x Hx. apply (In_nth _ _ 0) in Hx as (j & _ & <-).
  unfold nonneg. destruct (H j); lia.
Qed.

Lemma knn_k_pos k D A : knn_spec k D A -> D <> [] -> 0 < k.
Proof.
  intros [HL H] Hne. destruct D as [|p D]; [congruence|].
  destruct (H O) as (_ & H2 & H3 & H4 & _); [simpl; lia|].
  pose proof (zsum_ge_nth (nth 0 A []) 0 (row01_nonneg _ H2)). lia.
Qed.

Lemma nnps_knn k D A : knn_spec k D A -> nnps_matrix A = A.
Proof.
  intros HS. destruct A as [|r0 A0] eqn:EA; [reflexivity|]. rewrite <- EA in *.
  assert (D <> []) as HD by (destruct HS as [HL _]; rewrite EA in HL; destruct D; [discriminate|discriminate]).
  pose proof (knn_k_pos k D A HS HD) as Hk.
  assert (lcm_reduce (row_weights A) = k) as Hq.
  { apply lcm_reduce_const; [exact Hk|rewrite EA; discriminate|].
    unfold row_weights. apply Forall_forall. intros w Hw. apply in_map_iff in Hw as (row & <- & Hin).
    symmetry. apply (knn_rows k D A HS row Hin). }
  unfold nnps_matrix. rewrite Hq. rewrite <- (map_id A) at 2. apply map_ext_in. intros row Hin.
  destruct (knn_rows k D A HS row Hin) as (_ & _ & ->). rewrite Z_div_same by lia.
  rewrite <- (map_id row) at 2. apply map_ext. intros x. lia.
Qed.

Lemma knn_nonneg k D A : knn_spec k D A -> Forall (Forall nonneg) A.
Proof.
  intros HS. apply Forall_forall. intros row Hin. apply row01_nonneg. apply (knn_rows k D A HS row Hin).
Qed.

Lemma knn_ncols k D A : knn_spec k D A -> ncols A = length D.
Proof.
  intros HS. destruct A as [|r A0] eqn:E.
  - destruct HS as [HL _]. simpl in *. congruence.
  - simpl. apply (knn_rows k D (r :: A0) HS r). left; reflexivity.
Qed.

(** ---------- the pipeline on two samples ---------- *)
Lemma v_nth_ext (u w : list Z) (P : nat -> Prop) n : length u = n -> length w = n ->
  (forall j, nth j u 0 = 0 \/ nth j u 0 = 1) -> (forall j, nth j w 0 = 0 \/ nth j w 0 = 1) ->
  (forall j, (j < n)%nat -> (nth j u 0 = 1 <-> P j)) -> (forall j, (j < n)%nat -> (nth j w 0 = 1 <-> P j)) ->
  u = w.
Proof.
  intros Lu Lw Hu Hw Pu Pw. apply (nth_ext _ _ 0 0); [congruence|].
  intros j Hj. rewrite Lu in Hj. specialize (Pu j Hj). specialize (Pw j Hj).
  destruct (Hu j) as [Eu|Eu], (Hw j) as [Ew|Ew]; rewrite Eu, Ew in *; try reflexivity; exfalso.
  - assert (0 = 1) by (apply Pu, Pw; reflexivity). lia.
  - assert (0 = 1) by (apply Pw, Pu; reflexivity). lia.
Qed.

Lemma build_D_swap s1 s2 : build_D s1 s2 = build_D s2 s1.
Proof.
  apply sorted_unique; try apply build_D_sorted. intros p. rewrite !build_D_In. tauto.
Qed.

Lemma build_v_swap s1 s2 : build_v1 s1 s2 = build_v2 s2 s1.
Proof.
  apply (v_nth_ext _ _ (fun j => In (nth j (build_D s1 s2) []) s1) (length (build_D s1 s2))).
  - apply v1_length.
  - rewrite v2_length, build_D_swap. reflexivity.
  - apply v1_01.
  - apply v2_01.
  - intros j Hj. apply v1_exact. exact Hj.
  - intros j Hj. rewrite (build_D_swap s1 s2) in *. apply v2_exact. exact Hj.
Qed.

Lemma build_v_same s1 s2 : (forall p, In p s1 <-> In p s2) -> build_v1 s1 s2 = build_v2 s1 s2.
Proof.
  intros Hs.
  apply (v_nth_ext _ _ (fun j => In (nth j (build_D s1 s2) []) s1) (length (build_D s1 s2))).
  - apply v1_length.
  - apply v2_length.
  - apply v1_01.
  - apply v2_01.
  - intros j Hj. apply v1_exact. exact Hj.
  - intros j Hj. rewrite Hs. apply v2_exact. exact Hj.
Qed.

Lemma nnsp_distance_sym s1 s2 A : nnsp_distance s1 s2 A = nnsp_distance s2 s1 A.
Proof.
  unfold nnsp_distance. rewrite (build_v_swap s1 s2), <- (build_v_swap s2 s1).
  apply nnps_distance_sym. rewrite v2_length, v1_length. reflexivity.
Qed.

Lemma nnsp_distance_zero s1 s2 A : (forall p, In p s1 <-> In p s2) -> (nnsp_distance s1 s2 A == 0)%Q.
Proof. intros H. unfold nnsp_distance. rewrite (build_v_same s1 s2 H). apply nnps_distance_diag. Qed.

Lemma v01_nonneg v : (forall j, nth j v 0 = 0 \/ nth j v 0 = 1) -> Forall nonneg v.
Proof. exact (row01_nonneg v). Qed.

Lemma nnsp_distance_range k s1 s2 A : knn_ok k (build_D s1 s2) A = true ->
  unitq (nnsp_distance s1 s2 A).
Proof.
  intros H. apply knn_ok_sound in H. unfold nnsp_distance. rewrite (nnps_knn _ _ _ H).
  apply nnps_distance_range.
  - apply v01_nonneg, v1_01.
  - apply v01_nonneg, v2_01.
  - exact (knn_nonneg _ _ _ H).
  - rewrite (knn_ncols _ _ _ H), v1_length. lia.
Qed.

(** under the checker's guarantee the code never divides 0 by 0: every column of the pooled
    representation has positive total weight *)
Lemma nnsp_denominators_pos k s1 s2 A : knn_ok k (build_D s1 s2) A = true ->
  let M := nnps_matrix A in
  forall j, (j < length (build_D s1 s2))%nat ->
    0 < nth j (vecmat (build_v1 s1 s2) M) 0 + nth j (vecmat (build_v2 s1 s2) M) 0.
Proof.
  intros H M j Hj. apply knn_ok_sound in H. unfold M. rewrite (nnps_knn _ _ _ H).
  pose proof (knn_ncols _ _ _ H) as Hc. destruct H as [HL HR].
  rewrite !vecmat_nth by lia.
  set (g := fun vr : Z * list Z => fst vr * nth j (snd vr) 0).
  assert (forall v, length v = length (build_D s1 s2) -> (forall i, nth i v 0 = 0 \/ nth i v 0 = 1) ->
            nth j v 0 <= zsum (map g (combine v A))) as Hge.
  { intros v Lv Hv.
    assert (nth j (map g (combine v A)) 0 = nth j v 0 * 1) as E.
    { change 0 with (g (0, [])) at 1. rewrite map_nth. rewrite combine_nth by congruence.
      unfold g. simpl. destruct (HR j Hj) as (_ & _ & _ & -> & _). reflexivity. }
    rewrite Z.mul_1_r in E. rewrite <- E. apply zsum_ge_nth.
    apply vecmat_terms_nonneg; [apply v01_nonneg, Hv|].
    apply Forall_forall. intros row Hin. apply row01_nonneg.
    apply (In_nth _ _ []) in Hin as (i & Hi & <-). rewrite HL in Hi. apply (HR i Hi). }
  pose proof (Hge _ (v1_length s1 s2) (v1_01 s1 s2)).
  pose proof (Hge _ (v2_length s1 s2) (v2_01 s1 s2)).
  pose proof (v_cover s1 s2 j Hj). lia.
Qed.

(** trials of the threshold computation *)
Lemma is_shuffle_of_spec vref vs : is_shuffle_of vref vs = true ->
  length vs = length vref /\ (forall j, nth j vs 0 = 0 \/ nth j vs 0 = 1) /\ zsum vs = zsum vref.
Proof.
  unfold is_shuffle_of. intros H. apply andb_true_iff in H as [H H3]. apply andb_true_iff in H as [H1 H2].
  apply Nat.eqb_eq in H1. apply Z.eqb_eq in H3. split; [exact H1|]. split; [apply forallb_is01_nth, H2|exact H3].
Qed.

Lemma vcomplement_01 vs : (forall j, nth j vs 0 = 0 \/ nth j vs 0 = 1) -> Forall nonneg (vcomplement vs).
Proof.
  intros H. unfold vcomplement. apply Forall_forall. intros x Hx. apply in_map_iff in Hx as (y & <- & Hy).
  apply (In_nth _ _ 0) in Hy as (j & _ & <-). unfold nonneg. destruct (H j); lia.
Qed.

Lemma shuffle_distance_range k D A vref vs : knn_ok k D A = true -> length vref = length D ->
  is_shuffle_of vref vs = true -> unitq (shuffle_distance (nnps_matrix A) vs).
Proof.
  intros H HL Hs. apply knn_ok_sound in H. apply is_shuffle_of_spec in Hs as (L & H01 & _).
  unfold shuffle_distance. rewrite (nnps_knn _ _ _ H). apply nnps_distance_range.
  - apply v01_nonneg, H01.
  - apply vcomplement_01, H01.
  - exact (knn_nonneg _ _ _ H).
  - rewrite (knn_ncols _ _ _ H). lia.
Qed.

(** ---------- NNDVI on the generic machine ---------- *)
Lemma theta_ltb_spec theta d : theta_ltb theta d = true <-> exists t, theta = Some t /\ (t < d)%Q.
Proof.
  unfold theta_ltb. destruct theta as [t|].
  - split.
    + intros H. exists t. split; [reflexivity|]. apply Qlt_alt. destruct (t ?= d)%Q; congruence.
    + intros (t' & E & H). inversion E; subst.
      assert ((t' ?= d)%Q = Lt) as H' by (apply Qlt_alt; exact H). rewrite H'. reflexivity.
  - split; [discriminate|]. intros (t & E & _). discriminate.
Qed.

Definition nndvi_drifts (ref : list point) (x : nndvi_in) : bool :=
  theta_ltb (in_theta x) (nnsp_distance ref (in_test x) (in_adj x)).

Lemma nndvi_update (s : st NNDVI) (x : nndvi_in) :
  let s' := update s x in
  let b := nndvi_drifts (epoch s) x in
  ds s' = (if b then DDrift else if is_drift (ds s) then DNone else ds s) /\
  epoch s' = (if b then in_test x else epoch s) /\
  total s' = total s + 1 /\
  since s' = (if is_drift (ds s) then 1 else since s + 1) /\
  recs s' = (if is_drift (ds s) then recs_none else recs s).
Proof.
  cbv zeta. rewrite (update_eq NNDVI). unfold pre, nndvi_drifts. cbv zeta.
  destruct (is_drift (ds s)) eqn:Ed; simpl; unfold nndvi_step;
    destruct (theta_ltb (in_theta x) (nnsp_distance (epoch s) (in_test x) (in_adj x))); simpl;
    repeat split; reflexivity.
Qed.

Lemma nndvi_drift_iff (s : st NNDVI) x : ds (update s x) = DDrift <-> nndvi_drifts (epoch s) x = true.
Proof.
  destruct (nndvi_update s x) as (H & _). rewrite H.
  destruct (nndvi_drifts (epoch s) x); [tauto|].
  destruct (ds s); simpl; split; congruence.
Qed.

Lemma nndvi_epoch_obs (s : st NNDVI) x :
  epoch (update s x) = if is_drift (ds (update s x)) then in_test x else epoch s.
Proof.
  destruct (nndvi_update s x) as (H & H2 & _). rewrite H, H2.
  destruct (nndvi_drifts (epoch s) x); [reflexivity|]. destruct (ds s); reflexivity.
Qed.

Lemma nndvi_ref_by_trace : forall xs (s : st NNDVI),
  epoch (run s xs) = ref_by_trace (epoch s) xs (trace s xs).
Proof.
  induction xs as [|x xs IH]; intros s; [reflexivity|].
  unfold run in *. cbn [fold_left trace ref_by_trace observe o_ds]. rewrite IH.
  rewrite <- nndvi_epoch_obs. reflexivity.
Qed.

(** reachable states only ever show None or drift *)
Lemma nndvi_states : forall xs (s : st NNDVI), ds s <> DWarn -> ds (run s xs) <> DWarn.
Proof.
  induction xs as [|x xs IH]; intros s H; [exact H|].
  unfold run in *. simpl. apply IH. destruct (nndvi_update s x) as (E & _). rewrite E.
  destruct (nndvi_drifts (epoch s) x); [discriminate|]. destruct (ds s); simpl; congruence.
Qed.

(** ---------- completeness of the k-NN checker: every valid choice is accepted ---------- *)
Lemma row_order_ok_complete (row ds : list Z) : length row = length ds ->
  (forall j l, (j < length row)%nat -> (l < length row)%nat -> nth j row 0 = 1 -> nth l row 0 = 0 ->
     nth j ds 0 <= nth l ds 0) ->
  row_order_ok (combine row ds) = true.
Proof.
  intros HL H. unfold row_order_ok. apply forallb_forall. intros c Hc. apply forallb_forall. intros u Hu.
  apply (In_nth _ _ (0, 0)) in Hc as (j & Hj & <-). apply (In_nth _ _ (0, 0)) in Hu as (l & Hl & <-).
  rewrite combine_length in Hj, Hl. rewrite !combine_nth by exact HL. simpl.
  destruct (nth j row 0 =? 1) eqn:E1; [|reflexivity]. destruct (nth l row 0 =? 0) eqn:E0; [|reflexivity].
  simpl. apply Z.leb_le. apply H; lia.
Qed.

Lemma forallb_is01_complete row : (forall j, nth j row 0 = 0 \/ nth j row 0 = 1) -> forallb is01 row = true.
Proof.
  intros H. apply forallb_forall. intros x Hx. apply (In_nth _ _ 0) in Hx as (j & _ & <-). apply is01_spec, H.
Qed.

Lemma rows_ok_complete k D : forall A i0,
  (forall i, (i < length A)%nat -> row_ok k D (i0 + i) (nth i A []) = true) -> rows_ok k D i0 A = true.
Proof.
  induction A as [|row A IH]; intros i0 H; [reflexivity|]. simpl. apply andb_true_iff. split.
  - specialize (H O). rewrite Nat.add_0_r in H. apply H. simpl. lia.
  - apply IH. intros i Hi. specialize (H (S i)). rewrite <- Nat.add_succ_comm in H. apply H. simpl. lia.
Qed.

Lemma knn_ok_complete k D A : knn_spec k D A -> knn_ok k D A = true.
Proof.
  intros [HL H]. unfold knn_ok. apply andb_true_iff. split; [apply Nat.eqb_eq, HL|].
  apply rows_ok_complete. intros i Hi. simpl. rewrite HL in Hi.
  destruct (H i Hi) as (H1 & H2 & H3 & H4 & H5). unfold row_ok.
  repeat (apply andb_true_iff; split).
  - apply Nat.eqb_eq, H1.
  - apply forallb_is01_complete, H2.
  - apply Z.eqb_eq, H3.
  - apply Z.eqb_eq, H4.
  - apply row_order_ok_complete; [rewrite map_length; exact H1|].
    intros j l Hj Hl Ej El. rewrite !sqdist_nth. apply H5; lia.
Qed.

Lemma knn_ok_iff k D A : knn_ok k D A = true <-> knn_spec k D A.
Proof. split; [apply knn_ok_sound|apply knn_ok_complete]. Qed.

(** self-inclusion is forced by the distance condition: in a duplicate-free set of points of one
    dimension a point is the only one at distance 0 from itself *)
Lemma sqdist_nonneg : forall a b, 0 <= sqdist a b.
Proof. induction a as [|x a IH]; intros [|y b]; simpl; try lia.
  specialize (IH b). pose proof (Z.square_nonneg (x - y)). lia. Qed.

Lemma sqdist_refl a : sqdist a a = 0.
Proof. induction a as [|x a IH]; simpl; [reflexivity|]. rewrite IH. lia. Qed.

Lemma sqdist_zero : forall a b, length a = length b -> sqdist a b = 0 -> a = b.
Proof.
  induction a as [|x a IH]; intros [|y b] HL H; simpl in *; try discriminate; [reflexivity|].
  pose proof (sqdist_nonneg a b). pose proof (Z.square_nonneg (x - y)).
  assert ((x - y) * (x - y) = 0) as E by lia. apply Z.mul_eq_0 in E.
  assert (x = y) by lia. subst. f_equal. apply IH; lia.
Qed.

Lemma knn_self_forced (D : list point) (i : nat) (row : list Z) :
  NoDup D -> (forall p q, In p D -> In q D -> length p = length q) -> (i < length D)%nat ->
  (forall j, nth j row 0 = 0 \/ nth j row 0 = 1) ->
  (exists j, (j < length D)%nat /\ nth j row 0 = 1) ->
  (forall j l, (j < length D)%nat -> (l < length D)%nat -> nth j row 0 = 1 -> nth l row 0 = 0 ->
     sqdist (nth i D []) (nth j D []) <= sqdist (nth i D []) (nth l D [])) ->
  nth i row 0 = 1.
Proof.
  intros Hnd Hdim Hi H01 (j & Hj & Ej) Hord. destruct (H01 i) as [E0|E1]; [|exact E1]. exfalso.
  pose proof (Hord j i Hj Hi Ej E0) as H. rewrite sqdist_refl in H.
  pose proof (sqdist_nonneg (nth i D []) (nth j D [])) as H'.
  assert (nth i D [] = nth j D []) as E.
  { apply sqdist_zero; [apply Hdim; apply nth_In; assumption|lia]. }
  rewrite NoDup_nth in Hnd. pose proof (Hnd i j Hi Hj E). subst. lia.
Qed.
