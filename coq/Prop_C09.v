(** C09 — kdq-tree detectors alarm exactly when the leaf divergence exceeds a bootstrap bound.
    Statements only (proofs: KdqDet_Proofs.v; model: KdqDet.v on top of KdqTree.v).

    Oracles, universally quantified in every theorem: [trunc] (Python's int()), [rint] (np.around),
    [kl] (scipy.stats.entropy) and, inside every input, the list of bootstrap divergences that the
    call would draw under the seed schedule.  Strength of each theorem:
      [structural]  every arithmetic instance [N] and all oracles, no hypothesis - hence also the
                    bit-exact float model that the correspondence check runs against kdq_tree.py;
      [order-law]   under [OrdLaws N] (the comparison is a total preorder: no NaN);
      [laws]        under explicit monotonicity hypotheses on the arithmetic and on [rint].
    Histories are arbitrary lists of inputs (induction over the list). *)
From MV Require Import Base Num Lifecycle KdqTree KdqTree_Proofs KdqDet KdqDet_Proofs.
From Coq Require Import QArith Qround Lqa.
Local Open Scope Z_scope.

Section C09.
Context {N : Num}.
Local Open Scope num_scope.
Notation F := (F N).
Notation tree := (tree N).
Notation point := (point N).

(** ================================================================== the critical value *)

(** [order-law] np.quantile(l, q, method="nearest") as modelled returns an element of the list whose
    rank is the virtual index k = around((n-1) q): at most k elements lie strictly below it and more
    than k lie at or below it. *)
Theorem C09_quantile_nearest_rank : forall (rint : F -> Z), OrdLaws N -> forall (l : list F) (q : F),
  (0 <= qrank rint (len l) q < len l)%Z ->
  let k := qrank rint (len l) q in
  let v := quantile_nearest rint l q in
  In v l /\ (count_lt l v <= k)%Z /\ (k < count_le l v)%Z.
Proof. intros rint L l q H. exact (quantile_nearest_spec rint L l q H). Qed.

(** [order-law] the checker evaluated on the implementation's critical value is sound: whatever it
    accepts is (order-)equal to an element of the list, has the stated rank, and is (order-)equal to
    the model's quantile ... *)
Theorem C09_quantile_ok : forall (rint : F -> Z), OrdLaws N -> forall (l : list F) (q v : F),
  quantile_ok rint l q v = true ->
  let k := qrank rint (len l) q in
  (0 <= k < len l)%Z /\
  (exists x, In x l /\ fleb x v = true /\ fleb v x = true) /\
  (count_lt l v <= k)%Z /\ (k < count_le l v)%Z /\
  fleb v (quantile_nearest rint l q) = true /\ fleb (quantile_nearest rint l q) v = true.
Proof. intros rint L l q v H. exact (quantile_ok_sound rint L l q v H). Qed.

(** ... and complete: it accepts the model's value whenever the virtual index is a position *)
Theorem C09_quantile_ok_complete : forall (rint : F -> Z), OrdLaws N -> forall (l : list F) (q : F),
  (0 <= qrank rint (len l) q < len l)%Z -> quantile_ok rint l q (quantile_nearest rint l q) = true.
Proof. intros rint L l q H. exact (quantile_nearest_ok rint L l q H). Qed.

(** [order-law] monotone in alpha: if the virtual index of the smaller alpha [a1] is at least that
    of [a2] (both valid positions), its critical value is at least as large.  (C17 reuses this.) *)
Theorem quantile_nearest_antitone_alpha : forall (rint : F -> Z), OrdLaws N -> forall (l : list F) (a1 a2 : F),
  (0 <= qrank rint (len l) (qlevel a2) <= qrank rint (len l) (qlevel a1))%Z ->
  (qrank rint (len l) (qlevel a1) < len l)%Z ->
  fleb (critical_value rint a2 l) (critical_value rint a1 l) = true.
Proof. intros rint L l a1 a2 H1 H2. exact (critical_value_antitone rint L l a1 a2 H1 H2). Qed.

(** [laws] the hypothesis on the virtual indices follows from [a1 <= a2] when the arithmetic is
    monotone: [1 - .] reverses the order, multiplication by a non-negative number and [rint]
    preserve it (true of exact arithmetic and of correctly rounded floating point without NaN). *)
Theorem C09_quantile_rank_antitone_alpha : forall (rint : F -> Z),
  (forall a b : F, fleb a b = true -> fleb (f1 - b) (f1 - a) = true) ->
  (forall c a b : F, fleb f0 c = true -> fleb a b = true -> fleb (c * a) (c * b) = true) ->
  (forall z : Z, (0 <= z)%Z -> fleb (f0 : F) (fofZ z) = true) ->
  (forall a b : F, fleb a b = true -> (rint a <= rint b)%Z) ->
  forall n (a1 a2 : F), (1 <= n)%Z -> fleb a1 a2 = true ->
  (qrank rint n (qlevel a2) <= qrank rint n (qlevel a1))%Z.
Proof. intros rint H1 H2 H3 H4 n a1 a2. exact (qrank_antitone rint H1 H2 H3 H4 n a1 a2). Qed.

Theorem C09_quantile_antitone_alpha_laws : forall (rint : F -> Z), OrdLaws N ->
  (forall a b : F, fleb a b = true -> fleb (f1 - b) (f1 - a) = true) ->
  (forall c a b : F, fleb f0 c = true -> fleb a b = true -> fleb (c * a) (c * b) = true) ->
  (forall z : Z, (0 <= z)%Z -> fleb (f0 : F) (fofZ z) = true) ->
  (forall a b : F, fleb a b = true -> (rint a <= rint b)%Z) ->
  forall (l : list F) (a1 a2 : F), l <> [] -> fleb a1 a2 = true ->
  (0 <= qrank rint (len l) (qlevel a2))%Z -> (qrank rint (len l) (qlevel a1) < len l)%Z ->
  fleb (critical_value rint a2 l) (critical_value rint a1 l) = true.
Proof. intros rint L H1 H2 H3 H4 l a1 a2. exact (critical_value_antitone_laws rint L H1 H2 H3 H4 l a1 a2). Qed.

(** ================================================================== KdqTreeStreaming *)
Section Streaming.
Variable trunc : F -> F.
Variable rint : F -> Z.
Variable kl : list F -> list F -> F.
Variable p : kdq_params N.
Notation run := (ks_run trunc rint kl p).
Notation update := (ks_update trunc rint kl p).
Notation epoch := (epoch_hist trunc rint kl p (@ks_init N) []).
Notation w := (Z.to_nat (k_w p)).

(** [structural] what "the current epoch" is: the inputs since the update that followed the last
    reported drift (all inputs if there was none) *)
Theorem C09_stream_epoch : forall xs,
  epoch xs = xs \/
  exists pre, xs = pre ++ epoch xs /\ is_drift (s_ds (run ks_init pre)) = true.
Proof. intros xs. exact (epoch_hist_suffix trunc rint kl p xs ks_init []). Qed.

(** [structural] every reachable state is a function of the current epoch's inputs [h]:
    - fewer than window_size samples: they are buffered as pending reference, there is no tree, no
      bound, no divergence, state None, samples_since_reset = number of samples of the epoch;
    - otherwise: the tree is [build] of exactly the first window_size samples of the epoch, filled
      (accumulating, one at a time) with every later sample of the epoch; _test_data_size and
      samples_since_reset count those later samples (the reset() inside _inner_set_reference puts
      samples_since_reset back to 0 when the reference window completes); the bound is the
      nearest-rank (1 - alpha) quantile of the bootstrap list drawn by the update that completed
      the reference window, whose sample size is window_size. *)
Theorem C09_stream_closed_form : (1 <= k_w p)%Z -> forall xs,
  let s := run ks_init xs in
  let h := epoch xs in
  s_total s = len xs /\
  ((length h < w)%nat ->
     s_tree s = None /\ s_ref s = map fst h /\ s_since s = len h /\ s_ds s = DNone /\
     s_counter s = 0%Z /\ s_tsize s = 0%Z /\ s_crit s = None /\ s_tdist s = None) /\
  ((w <= length h)%nat ->
     let t0 := fst (kbuild trunc p (firstn w (map fst h))) in
     let test := skipn w (map fst h) in
     s_tree s = Some (fold_left fillstep1 test t0) /\ s_ref s = [] /\
     s_tsize s = len test /\ s_since s = len test /\
     s_crit s = Some (critical_value rint (k_alpha p) (snd (nth (w - 1) h ([], [])))) /\
     s_bootq s = Some (lcounts 0 t0, k_w p) /\
     s_oof s = snd (kbuild trunc p (firstn w (map fst h))) /\
     s_tdist s = last (ep_evald trunc kl p h) None).
Proof. intros Hw xs. exact (closed_form_fields trunc rint kl p Hw xs). Qed.

(** [structural] counts and divergence of such a tree: the "build" leaf counts are those of the
    reference tree, the "test" leaf counts are the leaf membership counts of the accumulated test
    samples, and the divergence is the oracle applied to the two corrected distributions. *)
Theorem C09_stream_divergence : forall (ref l : list point),
  let t0 := fst (kbuild trunc p ref) in
  let t := fold_left fillstep1 l t0 in
  lcounts 0 t = lcounts 0 t0 /\ lcounts 1 t = leaf_arrivals l t0 /\
  (l <> [] -> leaves t0 <> [] ->
   divergence kl t = Some (kl (distn (lcounts 0 t0)) (distn (leaf_arrivals l t0)))).
Proof. intros ref l. exact (filled_reference kl trunc p ref l). Qed.

(** [structural] the divergences of the evaluated samples of the epoch: the i-th one belongs to the
    tree filled with the first window_size + i test samples (no evaluation before window_size test
    samples have arrived) *)
Theorem C09_stream_evaluated : forall h i,
  ep_evald trunc kl p h = skipn (w - 1) (map (divergence kl) (ep_trees trunc p h)) /\
  ((i < length (ep_test p h))%nat ->
   nth i (ep_trees trunc p h) (@Nil N) = fold_left fillstep1 (firstn (S i) (ep_test p h)) (ep_t0 trunc p h)).
Proof. intros h i. split; [reflexivity|]. intros H. unfold ep_trees. apply scanl_nth. exact H. Qed.

(** [structural] the persistence counter is the length of the maximal run of consecutive evaluated
    samples whose divergence exceeded the bound, ending at the current sample ... *)
Theorem C09_stream_counter_is_run : (1 <= k_w p)%Z -> forall xs,
  let s := run ks_init xs in
  let h := epoch xs in
  s_counter s = Z.of_nat (suffix_run (above (ep_crit rint p h)) (ep_evald trunc kl p h)).
Proof.
  intros Hw xs. cbv zeta. rewrite (closed_form trunc rint kl p Hw xs). apply spec_counter.
Qed.

(** ... where [suffix_run P l] is characterised by: the last [suffix_run P l] elements satisfy [P] and
    the element before them, if any, does not *)
Theorem C09_suffix_run_spec : forall {A} (P : A -> bool) (l : list A),
  exists l1 l2, l = l1 ++ l2 /\ length l2 = suffix_run P l /\ forallb P l2 = true /\
                (l1 = [] \/ exists l1' y, l1 = l1' ++ [y] /\ P y = false).
Proof. intros A P l. exact (suffix_run_spec P l). Qed.

(** [structural] drift is reported exactly when that run is longer than persistence * window_size
    (the float product, compared with the integer counter) *)
Theorem C09_stream_drift_iff : (1 <= k_w p)%Z -> forall xs,
  let s := run ks_init xs in
  s_ds s = DDrift <->
  ((1 <= s_counter s)%Z /\ fltb (k_pers p * fofZ (k_w p)) (fofZ (s_counter s)) = true).
Proof. intros Hw xs. cbv zeta. rewrite (closed_form trunc rint kl p Hw xs). apply spec_ds. Qed.

(** [structural] silent until two full windows of the epoch have been seen (one to build, one to
    test); the state is never "warning" *)
Theorem C09_stream_silent : (1 <= k_w p)%Z -> forall xs,
  let s := run ks_init xs in
  (s_ds s = DDrift -> (2 * w <= length (epoch xs))%nat) /\ s_ds s <> DWarn.
Proof.
  intros Hw xs. cbv zeta. rewrite (closed_form trunc rint kl p Hw xs).
  split; [apply spec_silent; exact Hw | apply spec_not_warn].
Qed.

(** [structural] clean slate (C02 for KdqTreeStreaming): from the update that follows a reported
    drift onwards the detector behaves as a newly constructed one fed the later inputs only (same
    random draws), totals shifted - on the observable trace and on the whole state. *)
Theorem C09_clean_slate_streaming : forall (s : kstream N) xs, is_drift (s_ds s) = true ->
  ks_trace trunc rint kl p s xs = map (shift_obs (s_total s)) (ks_trace trunc rint kl p ks_init xs).
Proof. intros s xs H. exact (trace_clean_slate trunc rint kl p s xs H). Qed.

Theorem C09_clean_slate_streaming_states : forall (s : kstream N) xs, is_drift (s_ds s) = true ->
  ks_states trunc rint kl p s xs = map (ks_shift (s_total s)) (ks_states trunc rint kl p ks_init xs).
Proof. intros s xs H. exact (states_clean_slate trunc rint kl p s xs H). Qed.

(** [structural] lifecycle facts (C01): total_samples counts updates; *)
Theorem C09_lifecycle_stream_total : forall xs (s : kstream N),
  s_total (run s xs) = (s_total s + len xs)%Z.
Proof. intros xs s. exact (runs_total trunc rint kl p xs s). Qed.

(** samples_since_reset after one update: 0 when this sample completes the reference window,
    otherwise one more than before, where "before" is 0 if the previous state was drift; *)
Theorem C09_lifecycle_stream_since : forall (s : kstream N) x,
  s_since (update s x) =
  let s0 := if is_drift (s_ds s) then ks_reset s else s in
  match s_tree s0 with
  | None => if (len (s_ref s0) + 1 =? k_w p)%Z then 0%Z else (s_since s0 + 1)%Z
  | Some _ => (s_since s0 + 1)%Z
  end.
Proof. intros s x. exact (upd_since trunc rint kl p s x). Qed.

(** in particular it restarts to 1 on the update after a drift (to 0 if window_size = 1) *)
Theorem C09_lifecycle_stream_after_drift : forall (s : kstream N) x, s_ds s = DDrift ->
  s_since (update s x) = if (1 =? k_w p)%Z then 0%Z else 1%Z.
Proof. intros s x H. rewrite (upd_since trunc rint kl p s x), H. reflexivity. Qed.

(** closed form over histories, and bounds *)
Theorem C09_lifecycle_stream_since_closed : (1 <= k_w p)%Z -> forall xs,
  let s := run ks_init xs in
  let h := epoch xs in
  s_since s = (if (length h <? w)%nat then len h else len h - k_w p)%Z /\
  (0 <= s_since s <= s_total s)%Z.
Proof.
  intros Hw xs. cbv zeta. rewrite (closed_form trunc rint kl p Hw xs).
  rewrite (spec_since trunc rint kl p Hw), spec_total. split; [reflexivity|].
  pose proof (epoch_hist_length trunc rint kl p xs ks_init []) as Hl. simpl in Hl. unfold kw.
  destruct (Nat.ltb_spec (length (epoch xs)) w); unfold len; lia.
Qed.

End Streaming.

(** ================================================================== KdqTreeBatch *)
Section BatchThms.
Variable trunc : F -> F.
Variable rint : F -> Z.
Variable kl : list F -> list F -> F.
Variable p : kdq_params N.
Notation brun := (kb_run trunc rint kl p).
Notation bupdate := (kb_update trunc rint kl p).
Notation cref := (cur_ref trunc rint kl p (@kb_init N) None).
Notation crit_of B := (Some (critical_value rint (k_alpha p) B)).

(** [structural] the reference in force, as the code maintains it ([cur_ref] / [next_ref]):
    set_reference installs its argument; the first update of a detector without reference installs
    its batch; the update after a drift installs the batch that drifted, with the bootstrap drawn in
    that update; every other update keeps the reference.  Every reachable state holds the tree of
    the reference in force - [build] of it, possibly carrying the "test" counts of the last batch -
    and the bound computed from the bootstrap list drawn when that reference was installed, with
    sample size sum(ref_counts). *)
Theorem C09_batch_reference : forall ops,
  let s := brun kb_init ops in
  kb_wf s /\
  match cref ops with
  | None => b_tree s = None /\ b_ds s = DNone
  | Some (R, B) =>
      let t0 := fst (kbuild trunc p R) in
      exists t, b_tree s = Some t /\ (t = t0 \/ exists y : list point, t = fill y t0 1 true) /\
                b_crit s = crit_of B /\ b_oof s = snd (kbuild trunc p R) /\
                b_bootq s = Some (lcounts 0 t0, zsum (lcounts 0 t0))
  end.
Proof.
  intros ops. pose proof (binv_run trunc rint kl p ops kb_init None (binv_init trunc rint p)) as H.
  exact H.
Qed.

(** [structural] the decision on a batch [x] (state not drift, reference [R] with bootstrap list [B]):
    the batch is filled with reset=True, and drift is reported iff the bound is below the oracle's
    divergence of the corrected leaf distributions of reference counts and batch counts; the drifted
    batch is kept in ref_data; both counters advance by one. *)
Theorem C09_batch_drift_iff : forall ops R B x,
  let s := brun kb_init ops in
  cref ops = Some (R, B) -> b_ds s <> DDrift ->
  let t0 := fst (kbuild trunc p R) in
  leaves t0 <> [] ->
  let d := kl (distn (lcounts 0 t0)) (distn (leaf_arrivals (fst x) t0)) in
  let s' := bupdate s x in
  b_tdist s' = Some d /\
  (b_ds s' = DDrift <-> fltb (critical_value rint (k_alpha p) B) d = true) /\
  (b_ds s' = DDrift -> b_refdata s' = Some (fst x)) /\
  b_tree s' = Some (fill (fst x) t0 1 true) /\
  b_total s' = (b_total s + 1)%Z /\ b_since s' = (b_since s + 1)%Z.
Proof.
  intros ops R B x s Hc Hnd t0 Hne d s'.
  pose proof (binv_run trunc rint kl p ops kb_init None (binv_init trunc rint p)) as Hi.
  fold s in Hi. rewrite Hc in Hi.
  destruct (bupd_decide_counts trunc rint kl p s R B x Hi Hnd Hne) as [A Bq].
  destruct (bupd_decide trunc rint kl p s R B x Hi Hnd) as (T & _ & _ & _ & Rd & Tot & Sin).
  repeat split; try assumption; apply Bq.
Qed.

(** [structural] on drift the batch becomes the next reference: the update that follows a drift
    rebuilds the tree from the drifted batch ([ref_data], which is the batch of the update that
    reported the drift), draws a new bound, restarts batches_since_reset at 1 and judges the new
    batch against the new reference. *)
Theorem C09_batch_drifted_becomes_reference : forall ops x,
  let s := brun kb_init ops in
  b_ds s = DDrift ->
  exists r, b_refdata s = Some r /\
    let t0 := fst (kbuild trunc p r) in
    let d := divergence kl (fill (fst x) t0 1 true) in
    let s' := bupdate s x in
    b_tree s' = Some (fill (fst x) t0 1 true) /\ b_tdist s' = d /\ b_crit s' = crit_of (snd x) /\
    (b_ds s' = DDrift <-> above (crit_of (snd x)) d = true) /\
    b_total s' = (b_total s + 1)%Z /\ b_since s' = 1%Z.
Proof.
  intros ops x s Hd.
  pose proof (brun_wf trunc rint kl p ops kb_init (kb_init_wf)) as Hw. fold s in Hw.
  destruct (b_refdata s) as [r|] eqn:Er.
  - exists r. split; [reflexivity|]. exact (bupd_after_drift_state trunc rint kl p s r x Hw Hd Er).
  - exfalso. destruct Hw as [H _]. apply (H Hd). exact Er.
Qed.

(** [structural] ref_data after a reported drift is the batch of that very update *)
Theorem C09_batch_refdata : forall ops x,
  let s := brun kb_init ops in
  b_ds (bupdate s x) = DDrift -> b_refdata (bupdate s x) = Some (fst x).
Proof.
  intros ops x s. apply bupd_drift_refdata. exact (brun_wf trunc rint kl p ops kb_init kb_init_wf).
Qed.

(** [structural] clean slate (C02 for KdqTreeBatch): after a drift the future trace is that of a
    newly constructed detector given the drifted batch as reference (same draws), totals shifted; *)
Theorem C09_clean_slate_batch : forall (s : kbatch N) r x ops,
  kb_wf s -> b_ds s = DDrift -> b_refdata s = Some r ->
  kb_trace trunc rint kl p s (BUpdate x :: ops) =
  map (shift_obs (b_total s))
      (kb_trace trunc rint kl p (kb_set_reference trunc rint p kb_init (r, snd x)) (BUpdate x :: ops)).
Proof. intros s r x ops Hw Hd Er. exact (clean_slate_batch trunc rint kl p s r x ops Hw Hd Er). Qed.

(** and after an explicit set_reference, on any state, it is that of a new detector given the same
    reference; the twins agree on tree, bound and divergence as well ([btwin]) *)
Theorem C09_clean_slate_set_reference : forall (s : kbatch N) x ops,
  kb_trace trunc rint kl p (kb_set_reference trunc rint p s x) ops =
  map (shift_obs (b_total s)) (kb_trace trunc rint kl p (kb_set_reference trunc rint p kb_init x) ops).
Proof. intros s x ops. exact (clean_slate_set_reference trunc rint kl p s x ops). Qed.

(** the instance a seeded change (C02_R8) broke in the code: a set_reference that directly follows a reported drift
    cancels the pending adoption of the drifted batch - what follows is the trace of a new detector on the reference the
    user handed over, whatever batch had drifted *)
Theorem C09_set_reference_after_drift_cancels_adoption : forall (s : kbatch N) r x ops,
  b_ds s = DDrift -> b_refdata s = Some r ->
  kb_trace trunc rint kl p (kb_set_reference trunc rint p s x) ops =
  map (shift_obs (b_total s)) (kb_trace trunc rint kl p (kb_set_reference trunc rint p kb_init x) ops).
Proof. intros s r x ops _ _. exact (clean_slate_set_reference trunc rint kl p s x ops). Qed.

Theorem C09_clean_slate_batch_states : forall (s : kbatch N) x ops,
  Forall2 (btwin (b_total s))
          (kb_states trunc rint kl p (kb_set_reference trunc rint p s x) ops)
          (kb_states trunc rint kl p (kb_set_reference trunc rint p kb_init x) ops).
Proof.
  intros s x ops. apply btwin_states. apply btwin_isr. simpl. lia.
Qed.

(** [structural] lifecycle facts (C01): total_batches counts updates (set_reference is not one); *)
Theorem C09_lifecycle_batch_total : forall ops (s : kbatch N),
  b_total (brun s ops) = (b_total s + nupdates ops)%Z.
Proof. intros ops s. exact (brun_total trunc rint kl p ops s). Qed.

(** batches_since_reset: 0 after set_reference; after an update: 1 if the previous state was drift,
    0 if there was no reference yet (the quirk: the first update of a detector without
    set_reference ends with batches_since_reset = 0), one more otherwise; *)
Theorem C09_lifecycle_batch_since : forall ops x,
  let s := brun kb_init ops in
  b_since (kb_set_reference trunc rint p s x) = 0%Z /\
  b_since (bupdate s x) =
  (if is_drift (b_ds s) then 1 else match b_tree s with None => 0 | Some _ => b_since s + 1 end)%Z.
Proof.
  intros ops x s. split; [reflexivity|].
  apply bupd_since. exact (brun_wf trunc rint kl p ops kb_init kb_init_wf).
Qed.

Theorem C09_lifecycle_batch_first_update : forall x,
  b_since (bupdate kb_init x) = 0%Z /\ b_total (bupdate kb_init x) = 1%Z.
Proof. intros x. split; reflexivity. Qed.

(** bounds, and the state is never "warning" *)
Theorem C09_lifecycle_batch_bounds : forall ops,
  let s := brun kb_init ops in
  (0 <= b_since s <= b_total s)%Z /\ b_ds s <> DWarn.
Proof.
  intros ops. cbv zeta. split.
  - apply brun_since_bounds; [apply kb_init_wf | simpl; lia].
  - exact (proj2 (brun_wf trunc rint kl p ops kb_init kb_init_wf)).
Qed.

End BatchThms.
End C09.

(** ================================================================== non-vacuity *)
(** the rationals with round-half-up as [rint] satisfy every law used above *)
Definition qrint_up (x : Q) : Z := Qfloor (x + (1 # 2))%Q.

Example C09_laws_satisfiable :
  OrdLaws NumQ08 /\
  (forall a b : Q, Qle_bool a b = true -> Qle_bool (1 - b) (1 - a) = true) /\
  (forall c a b : Q, Qle_bool 0 c = true -> Qle_bool a b = true -> Qle_bool (c * a) (c * b) = true) /\
  (forall z : Z, (0 <= z)%Z -> Qle_bool 0 (inject_Z z) = true) /\
  (forall a b : Q, Qle_bool a b = true -> (qrint_up a <= qrint_up b)%Z).
Proof.
  split; [exact NumQ08_ord|]. repeat split.
  - intros a b H. apply Qle_bool_iff in H. apply Qle_bool_iff. lra.
  - intros c a b Hc H. apply Qle_bool_iff in Hc, H. apply Qle_bool_iff.
    rewrite (Qmult_comm c a), (Qmult_comm c b). apply Qmult_le_compat_r; assumption.
  - intros z Hz. apply Qle_bool_iff. change 0%Q with (inject_Z 0). rewrite <- Zle_Qle. exact Hz.
  - intros a b H. apply Qle_bool_iff in H. unfold qrint_up. apply Qfloor_resp_le. lra.
Qed.

(** concrete runs (exact rational arithmetic, a constant divergence oracle) that reach the behaviour
    the theorems speak about: a streaming drift and its epoch, a batch drift followed by adoption of
    the drifted batch, and a quantile whose rank hypotheses hold *)
Definition exP : kdq_params NumQ08 := @Build_kdq_params NumQ08 1 0%Q 0%Q 0 0%Q 1.
Definition exKL (a b : list Q) : Q := 1%Q.
Definition exTrunc (x : Q) : Q := x.

Example C09_stream_drift_reachable :
  let xs : list (sx NumQ08) := [([0%Q], [0%Q]); ([1%Q], [])] in
  s_ds (@ks_run NumQ08 exTrunc qrint_up exKL exP (@ks_init NumQ08) xs) = DDrift /\
  @epoch_hist NumQ08 exTrunc qrint_up exKL exP (@ks_init NumQ08) [] xs = xs /\
  @epoch_hist NumQ08 exTrunc qrint_up exKL exP (@ks_init NumQ08) [] (xs ++ [([2%Q], [0%Q])]) = [([2%Q], [0%Q])].
Proof. vm_compute. repeat split. Qed.

Example C09_batch_drift_reachable :
  let ops : list (bop NumQ08) := [@BSetRef NumQ08 ([[0%Q]; [0%Q]], [0%Q]); @BUpdate NumQ08 ([[1%Q]; [1%Q]], [])] in
  let s := @kb_run NumQ08 exTrunc qrint_up exKL exP (@kb_init NumQ08) ops in
  b_ds s = DDrift /\ b_refdata s = Some [[1%Q]; [1%Q]] /\
  @cur_ref NumQ08 exTrunc qrint_up exKL exP (@kb_init NumQ08) None ops = Some ([[0%Q]; [0%Q]], [0%Q]) /\
  leaves (fst (@kbuild NumQ08 exTrunc exP [[0%Q]; [0%Q]])) <> [].
Proof. vm_compute. repeat split. discriminate. Qed.

Example C09_quantile_ranks_reachable :
  let l : list Q := [3%Q; 1%Q; 2%Q; 5%Q; 4%Q] in
  let a1 := (1 # 10)%Q in let a2 := (1 # 2)%Q in
  (0 <= @qrank NumQ08 qrint_up (len l) (@qlevel NumQ08 a2) <= @qrank NumQ08 qrint_up (len l) (@qlevel NumQ08 a1))%Z /\
  (@qrank NumQ08 qrint_up (len l) (@qlevel NumQ08 a1) < len l)%Z /\
  @critical_value NumQ08 qrint_up a2 l = 3%Q /\ @critical_value NumQ08 qrint_up a1 l = 5%Q.
Proof. vm_compute. repeat split; discriminate. Qed.

Print Assumptions C09_quantile_nearest_rank.
Print Assumptions C09_quantile_ok.
Print Assumptions C09_quantile_ok_complete.
Print Assumptions quantile_nearest_antitone_alpha.
Print Assumptions C09_quantile_rank_antitone_alpha.
Print Assumptions C09_quantile_antitone_alpha_laws.
Print Assumptions C09_stream_epoch.
Print Assumptions C09_stream_closed_form.
Print Assumptions C09_stream_divergence.
Print Assumptions C09_stream_evaluated.
Print Assumptions C09_stream_counter_is_run.
Print Assumptions C09_suffix_run_spec.
Print Assumptions C09_stream_drift_iff.
Print Assumptions C09_stream_silent.
Print Assumptions C09_clean_slate_streaming.
Print Assumptions C09_clean_slate_streaming_states.
Print Assumptions C09_lifecycle_stream_total.
Print Assumptions C09_lifecycle_stream_since.
Print Assumptions C09_lifecycle_stream_after_drift.
Print Assumptions C09_lifecycle_stream_since_closed.
Print Assumptions C09_batch_reference.
Print Assumptions C09_batch_drift_iff.
Print Assumptions C09_batch_drifted_becomes_reference.
Print Assumptions C09_batch_refdata.
Print Assumptions C09_clean_slate_batch.
Print Assumptions C09_clean_slate_set_reference.
Print Assumptions C09_set_reference_after_drift_cancels_adoption.
Print Assumptions C09_clean_slate_batch_states.
Print Assumptions C09_lifecycle_batch_total.
Print Assumptions C09_lifecycle_batch_since.
Print Assumptions C09_lifecycle_batch_first_update.
Print Assumptions C09_lifecycle_batch_bounds.
