(** C10 - NN-DVI measures neighbourhood density change between exactly the given batches.
    Statements only (proofs: Nnsp_Proofs.v, Lifecycle_Proofs.v).  Points are lists of integers
    (exact coordinates), the distance is an exact rational; the k-NN search, the threshold and the
    permutations are oracle inputs constrained only by the stated, executable hypotheses. *)
From MV Require Import Base Lifecycle Lifecycle_Proofs Nnsp Nnsp_Proofs.
From Coq Require Import QArith Sorted.
Open Scope Z_scope.

(** D = np.unique(vstack(sample1, sample2), axis=0): strictly increasing in the lexicographic row
    order (hence duplicate-free) and containing exactly the points of the two samples. *)
Theorem C10_D_sorted_unique_exact : forall s1 s2 : list point,
  StronglySorted (fun a b => lex_cmp a b = Lt) (build_D s1 s2) /\
  NoDup (build_D s1 s2) /\
  forall p, In p (build_D s1 s2) <-> In p s1 \/ In p s2.
Proof.
  intros s1 s2. split; [exact (build_D_sorted s1 s2)|]. split; [exact (build_D_NoDup s1 s2)|].
  exact (build_D_In s1 s2).
Qed.

(** v1 marks exactly the points of the first sample, v2 exactly those of the second - for samples
    of any sizes, with duplicates inside and across the samples. *)
Theorem C10_v1_exact : forall (s1 s2 : list point),
  length (build_v1 s1 s2) = length (build_D s1 s2) /\
  (forall j, nth j (build_v1 s1 s2) 0 = 0 \/ nth j (build_v1 s1 s2) 0 = 1) /\
  forall j, (j < length (build_D s1 s2))%nat ->
    (nth j (build_v1 s1 s2) 0 = 1 <-> In (nth j (build_D s1 s2) []) s1).
Proof.
  intros s1 s2. split; [exact (v1_length s1 s2)|]. split; [exact (v1_01 s1 s2)|]. exact (v1_exact s1 s2).
Qed.

Theorem C10_v2_exact : forall (s1 s2 : list point),
  length (build_v2 s1 s2) = length (build_D s1 s2) /\
  (forall j, nth j (build_v2 s1 s2) 0 = 0 \/ nth j (build_v2 s1 s2) 0 = 1) /\
  forall j, (j < length (build_D s1 s2))%nat ->
    (nth j (build_v2 s1 s2) 0 = 1 <-> In (nth j (build_D s1 s2) []) s2).
Proof.
  intros s1 s2. split; [exact (v2_length s1 s2)|]. split; [exact (v2_01 s1 s2)|]. exact (v2_exact s1 s2).
Qed.

(** The checker accepts an adjacency matrix exactly when it is a k-nearest-neighbour relation of D
    with each point included: square, 0/1, k ones per row, the diagonal set, and every chosen
    neighbour no farther (exact squared Euclidean distance) than any unchosen one.  With ties in
    the distances every such choice is accepted, nothing else is. *)
Theorem C10_knn_ok_sound : forall (k : Z) (D : list point) (A : list (list Z)),
  knn_ok k D A = true <->
  (length A = length D /\
   forall i, (i < length D)%nat ->
     let row := nth i A [] in
     length row = length D /\
     (forall j, nth j row 0 = 0 \/ nth j row 0 = 1) /\
     zsum row = k /\
     nth i row 0 = 1 /\
     forall j l, (j < length D)%nat -> (l < length D)%nat -> nth j row 0 = 1 -> nth l row 0 = 0 ->
       sqdist (nth i D []) (nth j D []) <= sqdist (nth i D []) (nth l D [])).
Proof. exact knn_ok_iff. Qed.

(** "k ones per row" is a count, and the diagonal is not an extra requirement: among distinct
    points of one dimension the distance condition forces every non-empty row to contain itself *)
Theorem C10_knn_row_count_and_self : forall (k : Z) (D : list point) (A : list (list Z)) (i : nat),
  knn_ok k D A = true -> (i < length D)%nat ->
  Z.of_nat (count_occ Z.eq_dec (nth i A []) 1) = k /\
  (NoDup D -> (forall p q, In p D -> In q D -> length p = length q) ->
   forall row : list Z,
     (forall j, nth j row 0 = 0 \/ nth j row 0 = 1) ->
     (exists j, (j < length D)%nat /\ nth j row 0 = 1) ->
     (forall j l, (j < length D)%nat -> (l < length D)%nat -> nth j row 0 = 1 -> nth l row 0 = 0 ->
        sqdist (nth i D []) (nth j D []) <= sqdist (nth i D []) (nth l D [])) ->
     nth i row 0 = 1).
Proof.
  intros k D A i H Hi. split.
  - pose proof (knn_ok_sound k D A H) as [HL HR]. destruct (HR i Hi) as (_ & H01 & Hs & _).
    rewrite <- Hs. symmetry. apply zsum_count. apply forallb_is01_complete. exact H01.
  - intros Hnd Hdim row H01 Hex Hord. exact (knn_self_forced D i row Hnd Hdim Hi H01 Hex Hord).
Qed.

(** for a k-NN graph the weight-normalised matrix (lcm of the row weights over each row weight)
    is the adjacency matrix itself *)
Theorem C10_nnps_matrix_of_knn : forall k D A, knn_ok k D A = true -> nnps_matrix A = A.
Proof. intros k D A H. exact (nnps_knn k D A (knn_ok_sound k D A H)). Qed.

(** the NNPS distance is symmetric in the two samples (same pooled set, same admissible
    adjacency matrices, the identical rational number) *)
Theorem C10_distance_sym : forall (s1 s2 : list point) (A : list (list Z)) (k : Z),
  build_D s1 s2 = build_D s2 s1 /\
  build_v1 s1 s2 = build_v2 s2 s1 /\ build_v2 s1 s2 = build_v1 s2 s1 /\
  nnsp_distance s1 s2 A = nnsp_distance s2 s1 A.
Proof.
  intros s1 s2 A k. split; [exact (build_D_swap s1 s2)|]. split; [exact (build_v_swap s1 s2)|].
  split; [symmetry; exact (build_v_swap s2 s1)|]. exact (nnsp_distance_sym s1 s2 A).
Qed.

(** it lies in [0, 1] ... *)
Theorem C10_distance_range : forall (k : Z) (s1 s2 : list point) (A : list (list Z)),
  knn_ok k (build_D s1 s2) A = true ->
  (0 <= nnsp_distance s1 s2 A /\ nnsp_distance s1 s2 A <= 1)%Q.
Proof. exact nnsp_distance_range. Qed.

(** ... and is 0 when both samples are the same set of points (whatever the multiplicities) *)
Theorem C10_distance_zero_same_set : forall (s1 s2 : list point) (A : list (list Z)),
  (forall p, In p s1 <-> In p s2) -> (nnsp_distance s1 s2 A == 0)%Q.
Proof. exact nnsp_distance_zero. Qed.

(** the exact value is the value the code means: under the checker's guarantee no term of the
    code's sum is 0/0 (every denominator M_s1[j] + M_s2[j] is positive) *)
Theorem C10_distance_no_zero_division : forall (k : Z) (s1 s2 : list point) (A : list (list Z)),
  knn_ok k (build_D s1 s2) A = true ->
  forall j, (j < length (build_D s1 s2))%nat ->
    0 < nth j (vecmat (build_v1 s1 s2) (nnps_matrix A)) 0 + nth j (vecmat (build_v2 s1 s2) (nnps_matrix A)) 0.
Proof. exact nnsp_denominators_pos. Qed.

(** every trial of the threshold computation (a re-assignment of the pooled points with the
    reference's number of points, test = complement) also yields a distance in [0, 1] *)
Theorem C10_shuffle_range : forall (k : Z) (D : list point) (A : list (list Z)) (vref vs : list Z),
  knn_ok k D A = true -> length vref = length D -> is_shuffle_of vref vs = true ->
  (0 <= shuffle_distance (nnps_matrix A) vs /\ shuffle_distance (nnps_matrix A) vs <= 1)%Q.
Proof. exact shuffle_distance_range. Qed.

(** NNDVI.update from ANY state: drift is reported exactly when the threshold oracle is a number
    strictly below the exact NNPS distance between the held reference and the test batch; on
    drift the test batch becomes the reference, otherwise the reference is kept; the counters
    follow the generic batch lifecycle. *)
Theorem C10_nndvi_decision : forall (s : st NNDVI) (test : list point) (A : list (list Z)) (theta : option Q),
  let s' := update s (test, A, theta) in
  let d_act := nnsp_distance (epoch s) test A in
  (ds s' = DDrift <-> exists t, theta = Some t /\ (t < d_act)%Q) /\
  (ds s' = DDrift -> epoch s' = test) /\
  (ds s' <> DDrift -> epoch s' = epoch s /\ ds s' = (if is_drift (ds s) then DNone else ds s)) /\
  total s' = total s + 1 /\
  since s' = (if is_drift (ds s) then 1 else since s + 1).
Proof.
  intros s test A theta. cbv zeta.
  pose proof (nndvi_drift_iff s (test, A, theta)) as Hiff.
  destruct (nndvi_update s (test, A, theta)) as (H1 & H2 & H3 & H4 & _).
  unfold nndvi_drifts, in_test, in_adj, in_theta in *. simpl in *.
  split; [rewrite Hiff; apply theta_ltb_spec|].
  split; [intros Hd; apply Hiff in Hd; rewrite H2, Hd; reflexivity|].
  split; [|split; assumption].
  intros Hn. destruct (theta_ltb theta (nnsp_distance (epoch s) test A)) eqn:E.
  - exfalso. apply Hn. apply Hiff. reflexivity.
  - split; assumption.
Qed.

(** over any history: the reference held after a run is the test batch of the most recent update
    that reported drift (the initial reference if there was none), the state is never "warning",
    and the counters count *)
Theorem C10_nndvi_history : forall (ref0 : list point) (xs : list nndvi_in),
  let s := run (init NNDVI ref0) xs in
  epoch s = ref_by_trace ref0 xs (trace (init NNDVI ref0) xs) /\
  ds s <> DWarn /\
  total s = Z.of_nat (length xs) /\
  0 <= since s <= total s.
Proof.
  intros ref0 xs. cbv zeta.
  split; [exact (nndvi_ref_by_trace xs (init NNDVI ref0))|].
  split; [apply nndvi_states; discriminate|].
  split; [rewrite (run_total NNDVI); reflexivity|].
  apply (run_since_bounds NNDVI). simpl. lia.
Qed.

(** the hypotheses are satisfiable, with ties: on the 1-d points 0,1,2 with k = 2 the middle point
    may choose either neighbour, and both choices pass the checker (the value of the distance
    depends on that choice: 0 or 4/9) *)
Example C10_knn_ok_example :
  let s1 := [[0]; [2]; [0]] in let s2 := [[1]; [2]] in
  build_D s1 s2 = [[0]; [1]; [2]] /\ build_v1 s1 s2 = [1; 0; 1] /\ build_v2 s1 s2 = [0; 1; 1] /\
  knn_ok 2 (build_D s1 s2) [[1; 1; 0]; [1; 1; 0]; [0; 1; 1]] = true /\
  knn_ok 2 (build_D s1 s2) [[1; 1; 0]; [0; 1; 1]; [0; 1; 1]] = true /\
  knn_ok 2 (build_D s1 s2) [[1; 0; 1]; [0; 1; 1]; [0; 1; 1]] = false /\
  Qred (nnsp_distance s1 s2 [[1; 1; 0]; [1; 1; 0]; [0; 1; 1]]) = 0%Q /\
  Qred (nnsp_distance s1 s2 [[1; 1; 0]; [0; 1; 1]; [0; 1; 1]]) = (4 # 9)%Q /\
  is_shuffle_of (build_v1 s1 s2) [0; 1; 1] = true.
Proof. vm_compute. repeat split. Qed.

Print Assumptions C10_D_sorted_unique_exact.
Print Assumptions C10_v1_exact.
Print Assumptions C10_v2_exact.
Print Assumptions C10_knn_ok_sound.
Print Assumptions C10_knn_row_count_and_self.
Print Assumptions C10_nnps_matrix_of_knn.
Print Assumptions C10_distance_sym.
Print Assumptions C10_distance_range.
Print Assumptions C10_distance_zero_same_set.
Print Assumptions C10_distance_no_zero_division.
Print Assumptions C10_shuffle_range.
Print Assumptions C10_nndvi_decision.
Print Assumptions C10_nndvi_history.
