(** C08 — checkers evaluated by the correspondence harness on the bit-exact instance [NumFloat]. *)
From MV Require Import Base Num NumFloat KdqTree.
From Coq Require Import PrimFloat Uint63 FloatOps SpecFloat.

(** Python's [int(x)] of a finite double, read back as the double it is compared as
    (|x| >= 2^52 is already integral; otherwise the truncated integer fits 63 bits) *)
Definition ftrunc (x : float) : float :=
  match Prim2SF x with
  | S754_zero _ => PrimFloat.zero
  | S754_finite s mnt e =>
      if (0 <=? e)%Z then x
      else let q := (Zpos mnt / 2 ^ (- e))%Z in float_ofZ (if s then (- q)%Z else q)
  | _ => x
  end.

Definition ftree := tree NumFloat.
Definition fop := op NumFloat.
Definition frow := row NumFloat.

(** monomorphic constructors for the literals the harness prints *)
Definition FNil : ftree := @Nil NumFloat.
Definition FLeaf (c : counts) : ftree := @Leaf NumFloat c.
Definition FNode (ax : Z) (mid : float) (c : counts) (l r : ftree) : ftree := @Node NumFloat ax mid c l r.
Definition FFill (d : list (list float)) (id : Z) (reset : bool) : fop := @OFill NumFloat d id reset.
Definition FReset (value id : Z) : fop := @OReset NumFloat value id.

(** the tree ids the harness uses: 0 = "build", 1.. = fill ids *)
Definition IDS : list Z := [0; 1; 2; 3].

Definition counts_eqb (a b : counts) : bool :=
  forallb (fun id => opt_eqb Z.eqb (lookup id a) (lookup id b)) IDS.

Fixpoint tree_eqb (a b : ftree) : bool :=
  match a, b with
  | Nil, Nil => true
  | Leaf c, Leaf d => counts_eqb c d
  | Node ax mid c l r, Node ax' mid' c' l' r' =>
      (ax =? ax') && fbits_eqb mid mid' && counts_eqb c c' && tree_eqb l l' && tree_eqb r r'
  | _, _ => false
  end.

Definition fbuild (cub : Z) (clb : float) (m : Z) (fuel : Z) (data : list (list float)) : ftree * bool :=
  @build NumFloat ftrunc cub clb m (Z.to_nat fuel) data.

(** expected leaf_counts(id) per id: [None] = KeyError *)
Definition leafc_ok (t : ftree) (exp : list (Z * option (list Z))) : bool :=
  forallb (fun e => opt_eqb (list_eqb Z.eqb) (all_some (leaf_counts (fst e) t)) (snd e)) exp.

Definition state_ok (t : ftree) (exp : ftree * list (Z * option (list Z))) : bool :=
  tree_eqb t (fst exp) && leafc_ok t (snd exp).

Fixpoint steps_ok (t : ftree) (steps : list (fop * (ftree * list (Z * option (list Z))))) : bool :=
  match steps with
  | [] => true
  | (o, e) :: rest => let t' := apply_op t o in state_ok t' e && steps_ok t' rest
  end.

Fixpoint final_tree (t : ftree) (steps : list (fop * (ftree * list (Z * option (list Z))))) : ftree :=
  match steps with [] => t | (o, _) :: rest => final_tree (apply_op t o) rest end.

(** rows of to_plotly_dataframe: (idx, parent, depth, cell_count, count_diff, (axis, mid, is_left)) *)
Definition erow := (nat * option nat * nat * Z * option Z * option (Z * float * bool))%type.

Definition name_eqb (a b : Z * float * bool) : bool :=
  let '(ax, mid, side) := a in let '(ax', mid', side') := b in
  (ax =? ax') && fbits_eqb mid mid' && Bool.eqb side side'.

Definition row_eqb (r : frow) (e : erow) : bool :=
  let '(idx, par, dep, cnt, dif, nm) := e in
  Nat.eqb (r_idx r) idx && opt_eqb Nat.eqb (r_parent r) par && Nat.eqb (r_depth r) dep
  && (r_count r =? cnt) && opt_eqb Z.eqb (r_diff r) dif && opt_eqb name_eqb (r_name r) nm.

Fixpoint rows_eqb (a : list frow) (b : list erow) : bool :=
  match a, b with
  | [], [] => true
  | x :: a', y :: b' => row_eqb x y && rows_eqb a' b'
  | _, _ => false
  end.

Definition flist_eqb := list_eqb fbits_eqb.
Definition fpair_eqb (a b : list float * list float) : bool :=
  flist_eqb (fst a) (fst b) && flist_eqb (snd a) (snd b).

(** one to_plotly_dataframe query: (id1, id2, max_depth), expected rows, and (when the harness could
    record them) the argument pairs of scipy.stats.entropy for the kss column *)
Definition plot_ok (t : ftree)
           (q : (Z * option Z * option nat) * list erow * option (list (list float * list float))) : bool :=
  let '(id1, id2, md, exp, ka) := q in
  let rows := plotly_rows id1 id2 md t in
  rows_eqb rows exp
  && match ka with None => true | Some l => list_eqb fpair_eqb (kss_args rows) l end.

(** one kl_distance query: [None] = the call returned None / raised KeyError; the inner option is
    the recorded argument pair of scipy.stats.entropy (absent when it could not be recorded) *)
Definition kl_ok (t : ftree) (q : Z * Z * option (option (list float * list float))) : bool :=
  let '(id1, id2, e) := q in
  match kl_args t id1 id2, e with
  | None, None => true
  | Some _, Some None => true
  | Some a, Some (Some b) => fpair_eqb a b
  | _, _ => false
  end.

(** _distn_from_counts on given counts *)
Definition distn_ok (q : list Z * list float) : bool := flist_eqb (@distn NumFloat (fst q)) (snd q).

Definition chk_case (cub : Z) (clb : float) (m : Z) (fuel : Z) (data : list (list float))
           (exp0 : ftree * list (Z * option (list Z)))
           (steps : list (fop * (ftree * list (Z * option (list Z)))))
           (plots : list ((Z * option Z * option nat) * list erow * option (list (list float * list float))))
           (kls : list (Z * Z * option (option (list float * list float))))
           (dists : list (list Z * list float)) : bool :=
  let '(t0, oof) := fbuild cub clb m fuel data in
  negb oof && state_ok t0 exp0 && steps_ok t0 steps
  && (let t := final_tree t0 steps in forallb (plot_ok t) plots && forallb (kl_ok t) kls)
  && forallb distn_ok dists.

(** the implementation raised RecursionError: the model must run out of fuel with fuel
    (n+1)*(m+1), which implies an unbounded recursion (some data set repeats at the same axis) *)
Definition chk_diverges (cub : Z) (clb : float) (m : Z) (data : list (list float)) : bool :=
  snd (fbuild cub clb m ((len data + 1) * (m + 1)) data).

(** diagnosis *)
Definition show_case (cub : Z) (clb : float) (m : Z) (fuel : Z) (data : list (list float))
           (steps : list (fop * (ftree * list (Z * option (list Z))))) :=
  let '(t0, oof) := fbuild cub clb m fuel data in
  (oof, t0, final_tree t0 steps, @min_sizes NumFloat ftrunc clb m data).
