(** Exact-arithmetic reading of Page-Hinkley's running mean (reals). *)
From MV Require Import Base Num NumLaws Lifecycle Pairwise ChangeDet RunMean.
From Coq Require Import Reals Lra.

Fixpoint ph_feed (p : @ph_params NumR) (e : @ph_e NumR) (n : Z) (xs : list R) : @ph_e NumR :=
  match xs with
  | [] => e
  | x :: t => ph_feed p (fst (ph_step p e (n + 1) x)) (n + 1) t
  end.

Lemma ph_feed_mean (p : @ph_params NumR) : forall xs (e : @ph_e NumR) n,
  p_mean (ph_feed p e n xs) = run_mean (p_mean e) n xs.
Proof. induction xs as [|x xs IH]; intros e n; [reflexivity|]. cbn [ph_feed run_mean]. rewrite IH. reflexivity. Qed.

(** after the observations [xs] of an epoch the mean Page-Hinkley tests against is their arithmetic mean *)
Theorem ph_mean_exact (p : @ph_params NumR) xs : xs <> [] ->
  p_mean (ph_feed p ph_e0 0 xs) = (sumR xs / IZR (Z.of_nat (length xs)))%R.
Proof. intros H. rewrite ph_feed_mean. apply run_mean_exact. exact H. Qed.
