(** C18 - batch detectors ignore the order of the rows inside a batch.
    Statements only (proofs: Perm_Proofs.v, Perm_Hdm_Proofs.v).  [Permutation] is
    Coq.Sorting.Permutation.  The subjects are the models of the other properties, unchanged:
    KdqTree.v (C08), Nnsp.v (C10), Hist.v / Hdm.v (C07), plus the thin detector models of PermDet.v.

    Strength of each theorem:
      [no-law]  every arithmetic instance [N], hence also the bit-exact float model;
      [laws]    under [PL : PermLaws N]: [fleb] is a total order INCLUDING ANTISYMMETRY, [fltb] is its
                strict part, [feqb] is symmetric and transitive.  Needed wherever a minimum / maximum of
                a column is taken (kdq-tree split values, histogram range): without antisymmetry "the"
                minimum is not unique.  True of the reals ([C18_laws_satisfiable]).  IEEE doubles
                without NaN violate antisymmetry for exactly one pair, +0 / -0, and there the
                fold-computed minimum does depend on the row order ([C18_float_signed_zero]); data
                containing both signed zeros is outside the theorems (and outside the generators).
      [exact]   NN-DVI: points are exact ([list Z]), no hypothesis.
    Oracles are explicit arguments and equal on both sides: scipy.stats.entropy [kl], the bootstrap
    critical value of the kdq-tree, sklearn's adjacency matrix and the NN-DVI threshold, the HDM
    divergence / t.ppf / [x ** 2], and - for detect_batch = 2 only - the bootstrap estimate of the
    first epsilon, which the implementation computes by POSITIONAL resampling of the reference: the
    equality of that oracle on both sides is an assumption that the implementation does not honour,
    which is why the property claims decisions only for detect_batch = 3 ([C18_hdm_run_db3] needs no
    such assumption). *)
From MV Require Import Base Num NumFloat NumLaws Lifecycle Nnsp Nnsp_Proofs KdqTree KdqTree_Proofs PermDet Perm_Proofs
  Hist Hdm Perm_Hdm_Proofs.
From Coq Require Import Permutation QArith Reals PrimFloat.
Local Open Scope Z_scope.

(** ================================================================== kdq-tree *)
Section C18_kdq.
Context {N : Num}.
Variable PL : PermLaws N.
Notation F := (F N).
Notation kpoint := (KdqTree.point N).

(** [laws] np.min / np.max / np.ptp / np.unique(.).size of a column *)
Theorem C18_min_max_order_free : forall c c' : list F, Permutation c c' ->
  col_min c = col_min c' /\ col_max c = col_max c' /\ ptp c = ptp c' /\ distinct c = distinct c'.
Proof.
  intros c c' H. repeat split;
    [apply (col_min_perm PL) | apply (col_max_perm PL) | apply (ptp_perm PL) | apply (distinct_perm PL)]; exact H.
Qed.

(** [laws] KDQTreePartitioner.build: permuting the rows gives the same tree - axes, split values,
    counts - and the same out-of-fuel flag *)
Theorem C18_kdq_build : forall trunc cub clb m fuel (pts pts' : list kpoint), Permutation pts pts' ->
  build trunc cub clb m fuel pts = build trunc cub clb m fuel pts'.
Proof. intros. apply (build_perm PL). assumption. Qed.

(** [no-law] KDQTreePartitioner.fill: the same counts in every node of any tree *)
Theorem C18_kdq_fill : forall (t : tree N) (b b' : list kpoint) id reset, Permutation b b' ->
  fill b t id reset = fill b' t id reset.
Proof. intros. apply fill_perm. assumption. Qed.

(** [laws] hence the leaf-count vectors, the two arguments of the KL divergence and its value are the
    same for a row-permuted reference and a row-permuted test batch *)
Theorem C18_kdq_divergence : forall trunc cub clb m fuel kl (ref ref' b b' : list kpoint),
  Permutation ref ref' -> Permutation b b' ->
  let t := fill b (fst (build trunc cub clb m fuel ref)) 1 true in
  let t' := fill b' (fst (build trunc cub clb m fuel ref')) 1 true in
  leaf_counts 0 t = leaf_counts 0 t' /\ leaf_counts 1 t = leaf_counts 1 t'
  /\ kl_args t 0 1 = kl_args t' 0 1 /\ kl_distance kl t 0 1 = kl_distance kl t' 0 1.
Proof.
  intros trunc cub clb m fuel kl ref ref' b b' Hr Hb t t'.
  assert (E : t = t').
  { unfold t, t'. rewrite (build_perm PL trunc cub clb m fuel ref ref' Hr). apply fill_perm. exact Hb. }
  rewrite E. repeat split.
Qed.

(** [laws] KdqTreeBatch over a whole history: reference and every batch independently row-permuted,
    the same bootstrap oracle.  The two detectors report the same states and counters after every
    update, and hold the same tree (hence the same counts in [to_plotly_dataframe]), the same
    [_test_dist], [_critical_dist] and divergence arguments. *)
Theorem C18_kdqbatch_run : forall trunc cub clb m fuel_of kl (ref ref' : list kpoint) boot boot' xs xs',
  Permutation ref ref' -> (forall c, boot c = boot' c) -> Forall2 kdq_xrel xs xs' ->
  let K := KdqBatch trunc cub clb m fuel_of kl in
  let s0 := init K (kdq_set_reference trunc cub clb m fuel_of ref boot) in
  let s0' := init K (kdq_set_reference trunc cub clb m fuel_of ref' boot') in
  let view := fun s : st K => (k_tree (epoch s), k_dist (epoch s), k_crit (epoch s), kdq_kl_args (epoch s)) in
  trace s0 xs = trace s0' xs' /\ map view (states s0 xs) = map view (states s0' xs').
Proof.
  intros trunc cub clb m fuel_of kl ref ref' boot boot' xs xs' Hr Hb Hx K s0 s0' view. split.
  - apply (kdq_trace_perm PL); assumption.
  - apply (Forall2_map_eq (kdq_same trunc cub clb m fuel_of kl)).
    + intros a b H. apply kdq_same_obs in H as (_ & Ht & Ha & Hd & Hc). subst view K. cbv beta.
      rewrite Ht, Ha, Hd, Hc. reflexivity.
    + apply (kdq_states_perm PL); assumption.
Qed.
End C18_kdq.

(** ================================================================== NN-DVI *)
(** [exact] NNSpacePartitioner.build: [D], [v1], [v2] - and with the same adjacency oracle the NNPS
    distance - are the same for independently permuted samples (they depend on each sample only
    through its set of rows) *)
Theorem C18_nnsp_build : forall s1 s1' s2 s2', Permutation s1 s1' -> Permutation s2 s2' ->
  build_D s1 s2 = build_D s1' s2' /\ build_v1 s1 s2 = build_v1 s1' s2' /\ build_v2 s1 s2 = build_v2 s1' s2'.
Proof.
  intros s1 s1' s2 s2' H1 H2. apply perm_same_set in H1. apply perm_same_set in H2.
  repeat split; [apply build_D_set | apply build_v1_set | apply build_v2_set]; assumption.
Qed.

Theorem C18_nnsp_distance : forall s1 s1' s2 s2' A, Permutation s1 s1' -> Permutation s2 s2' ->
  nnsp_distance s1 s2 A = nnsp_distance s1' s2' A.
Proof. intros. apply nnsp_distance_set; apply perm_same_set; assumption. Qed.

(** [exact] NNDVI over a whole history of batches of any sizes: reference and every batch
    independently permuted, the same adjacency and threshold oracles.  Same states and counters after
    every update; the references the two detectors hold are permutations of each other throughout. *)
Theorem C18_nndvi_run : forall ref ref' xs xs', Permutation ref ref' -> Forall2 nndvi_xrel xs xs' ->
  trace (init NNDVI ref) xs = trace (init NNDVI ref') xs'
  /\ Forall2 (@Permutation Nnsp.point) (map epoch (states (init NNDVI ref) xs)) (map epoch (states (init NNDVI ref') xs')).
Proof.
  intros ref ref' xs xs' Hr Hx. split.
  - apply nndvi_trace_perm; assumption.
  - apply (Forall2_map_rel nndvi_same).
    + intros a b [H _]. exact H.
    + apply nndvi_states_perm; assumption.
Qed.

(** ================================================================== histograms, HDDDM / CDBD *)
Section C18_hdm.
Context {N : Num}.
Notation F := (F N).
Variable trunc : F -> Z.

(** [no-law] np.histogram(xs, bins, range)[0] depends only on the multiset of the values *)
Theorem C18_histogram : forall (xs xs' : list F) n lo hi, Permutation xs xs' ->
  histogram trunc xs n lo hi = histogram trunc xs' n lo hi.
Proof. intros. apply histogram_perm. assumption. Qed.

Variable PL : PermLaws N.

(** [laws] the joint range of a feature and both histograms over it *)
Theorem C18_hdm_histograms : forall k bins (ref ref' X X' : list (@hrow N)),
  Permutation ref ref' -> Permutation X X' ->
  (forall f, feat_range ref X f = feat_range ref' X' f)
  /\ all_hists trunc k bins ref X = all_hists trunc k bins ref' X'.
Proof.
  intros k bins ref ref' X X' Hr HX. split.
  - intros f. apply (feat_range_perm PL); assumption.
  - apply (all_hists_perm trunc PL); assumption.
Qed.

Variable sq : F -> F.
Variable dist : list Z -> list Z -> F.
Variable tppf : Z -> F.

(** [laws] one update, any detect_batch, any bootstrap values: [current_distance] and the histograms
    are the same when the references are permutations of each other and the batch is permuted *)
Theorem C18_hdm_distance : forall p (s s' : @hst N) X X' b b',
  hrel s s' -> Permutation X X' ->
  h_cur (hdm_core trunc sq dist tppf p s X b) = h_cur (hdm_core trunc sq dist tppf p s' X' b')
  /\ h_hists (hdm_core trunc sq dist tppf p s X b) = h_hists (hdm_core trunc sq dist tppf p s' X' b').
Proof. intros. apply (hdm_distance_rel trunc PL); assumption. Qed.

(** [laws] detect_batch = 3, any sequence of update / set_reference calls on independently permuted
    data, ARBITRARY bootstrap values on both sides: after every call the two detectors agree in drift
    state, counters, distance, epsilon, threshold, reference size, epsilon list and running total; the
    references are permutations of each other (appending and replacing preserve that). *)
Theorem C18_hdm_run_db3 : forall p ops ops', h_db p = 3 -> Forall2 (hop_rel false) ops ops' ->
  Forall2 hobs_rel (hdm_trace trunc sq dist tppf p hdm_init ops) (hdm_trace trunc sq dist tppf p hdm_init ops').
Proof.
  intros p ops ops' Hdb Ho. apply (hdm_trace_rel trunc PL sq dist tppf p false); try assumption.
  - rewrite Hdb. discriminate.
  - intros _. exact Hdb.
  - apply hrel_refl.
Qed.

(** [laws] detect_batch = 2 (any value but 1): the same, PROVIDED the bootstrap estimate of the first
    epsilon is the same on both sides *)
Theorem C18_hdm_run_same_bootstrap : forall p ops ops', h_db p <> 1 -> Forall2 (hop_rel true) ops ops' ->
  Forall2 hobs_rel (hdm_trace trunc sq dist tppf p hdm_init ops) (hdm_trace trunc sq dist tppf p hdm_init ops').
Proof.
  intros p ops ops' Hdb Ho. apply (hdm_trace_rel trunc PL sq dist tppf p true); try assumption.
  - discriminate.
  - apply hrel_refl.
Qed.
End C18_hdm.

(** ================================================================== any detector of that shape *)
(** A batch detector that reads (reference, batch) only through an order-free summary, appends the
    batch to the reference when it reports no drift and replaces the reference otherwise, produces the
    same trace on independently permuted data. *)
Theorem C18_summary_detector : forall (R S A O : Type) (summ : list R -> list R -> S)
    (decide : A -> Z -> S -> O -> A * option dstate) (areset : A -> A),
  (forall r r' b b', Permutation r r' -> Permutation b b' -> summ r b = summ r' b') ->
  forall ref ref' a0 xs xs', Permutation ref ref' ->
  Forall2 (fun x x' : list R * O => Permutation (fst x) (fst x') /\ snd x = snd x') xs xs' ->
  trace (init (SumDet R S A O summ decide areset) (ref, a0)) xs
  = trace (init (SumDet R S A O summ decide areset) (ref', a0)) xs'.
Proof. intros R S A O summ decide areset Hs ref ref' a0 xs xs' Hr Hx. apply sum_trace_perm; assumption. Qed.

(** ================================================================== hypotheses: satisfiable / sharp *)
Example C18_laws_satisfiable : PermLaws NumR.
Proof. exact PermLawsR. Qed.

(** binary64: [+0 <= -0 <= +0], the two differ, and the minimum of a column holding both depends on
    the order of the rows (only in the sign of the zero it returns) *)
Example C18_float_signed_zero :
  @fleb NumFloat 0%float (-0)%float = true /\ @fleb NumFloat (-0)%float 0%float = true
  /\ 0%float <> (-0)%float
  /\ get_sign (@col_min NumFloat [0%float; (-0)%float]) = false
  /\ get_sign (@col_min NumFloat [(-0)%float; 0%float]) = true.
Proof.
  repeat split; try (vm_compute; reflexivity).
  intros H. assert (E : get_sign 0%float = get_sign (-0)%float) by (rewrite H at 1; reflexivity).
  vm_compute in E. discriminate.
Qed.

(** a concrete instance of the hypotheses of the run theorems: two batches, rows reversed *)
Example C18_example_related_inputs :
  let b := [[1; 2]; [3; 4]; [1; 2]] in
  let x : nndvi_in := (b, [], None) in
  let x' : nndvi_in := (rev b, [], None) in
  Forall2 nndvi_xrel [x] [x'].
Proof.
  simpl. constructor; [|constructor]. repeat split. simpl. apply Permutation_rev.
Qed.

Print Assumptions C18_min_max_order_free.
Print Assumptions C18_kdq_build.
Print Assumptions C18_kdq_fill.
Print Assumptions C18_kdq_divergence.
Print Assumptions C18_kdqbatch_run.
Print Assumptions C18_nnsp_build.
Print Assumptions C18_nnsp_distance.
Print Assumptions C18_nndvi_run.
Print Assumptions C18_histogram.
Print Assumptions C18_hdm_histograms.
Print Assumptions C18_hdm_distance.
Print Assumptions C18_hdm_run_db3.
Print Assumptions C18_hdm_run_same_bootstrap.
Print Assumptions C18_summary_detector.
