(** Two settings of one detector whose threshold enters through the inputs (LFR: the Monte-Carlo bounds
    requested at an update): the lock-step theorems of [Lifecycle_Mono], generalised to two input
    streams related pointwise by [xrel]. *)
From MV Require Import Base Lifecycle Lifecycle_Proofs Lifecycle_Mono.

Section TwoStreams.
Variables (E0 X1 X2 : Type) (reset0 : E0 -> E0) (pol : recs_policy).
Variable step1 : E0 -> Z -> X1 -> E0 * option dstate.   (* 1 = looser *)
Variable step2 : E0 -> Z -> X2 -> E0 * option dstate.   (* 2 = stricter *)
Variable xrel : X1 -> X2 -> Prop.

Definition L1 : kernel := {| E := E0; X := X1; reset_e := reset0; step_e := step1; policy := pol |}.
Definition L2 : kernel := {| E := E0; X := X2; reset_e := reset0; step_e := step2; policy := pol |}.

Variable erel : E0 -> E0 -> Prop.
Hypothesis same_state : forall e1 e2 n x1 x2, erel e1 e2 -> xrel x1 x2 ->
  erel (fst (step1 e1 n x1)) (fst (step2 e2 n x2)).
Hypothesis same_otherwise : forall e1 e2 n x1 x2, erel e1 e2 -> xrel x1 x2 ->
  snd (step1 e1 n x1) <> Some DDrift -> snd (step2 e2 n x2) = snd (step1 e1 n x1).

Definition srel2 (a : st L1) (b : st L2) : Prop :=
  erel (epoch a) (epoch b) /\ total a = total b /\ since a = since b /\ ds a = ds b /\ recs a = recs b.

Lemma update_lockstep2 (a : st L1) (b : st L2) x1 x2 : srel2 a b -> xrel x1 x2 -> ds a <> DDrift ->
  (ds (update a x1) = DDrift) \/
  (ds (update a x1) <> DDrift /\ srel2 (update a x1) (update b x2)).
Proof.
  intros (He & Ht & Hs & Hd & Hr) Hx Hnd.
  assert (Hp1 : pre L1 a = a) by (unfold pre; destruct (ds a); simpl; congruence).
  assert (Hp2 : pre L2 b = b) by (unfold pre; rewrite <- Hd; destruct (ds a); simpl; congruence).
  rewrite (update_eq L1 a x1), (update_eq L2 b x2). cbv zeta. rewrite Hp1, Hp2. simpl.
  pose proof (same_state (epoch a) (epoch b) (since a + 1) x1 x2 He Hx) as SS.
  pose proof (same_otherwise (epoch a) (epoch b) (since a + 1) x1 x2 He Hx) as SO.
  rewrite <- Hs, <- Ht, <- Hd, <- Hr.
  destruct (snd (step1 (epoch a) (since a + 1) x1)) as [d|] eqn:E1.
  - destruct d.
    + right. split; [discriminate|]. rewrite (SO ltac:(discriminate)). unfold srel2; simpl. repeat split; assumption.
    + right. split; [discriminate|]. rewrite (SO ltac:(discriminate)). unfold srel2; simpl. repeat split; assumption.
    + left. reflexivity.
  - right. split; [exact Hnd|]. rewrite (SO ltac:(discriminate)). unfold srel2; simpl. repeat split; assumption.
Qed.

Lemma observe_srel2 (a : st L1) (b : st L2) : srel2 a b -> observe b = observe a.
Proof. intros (_ & Ht & Hs & Hd & Hr). unfold observe. simpl. rewrite Ht, Hs, Hd, Hr. reflexivity. Qed.

(** the stricter run never reports its first drift before the looser one does *)
Theorem first_drift_monotone2 : forall xs1 xs2 (a : st L1) (b : st L2), Forall2 xrel xs1 xs2 ->
  srel2 a b -> ds a <> DDrift ->
  opt_le (first_drift (trace a xs1)) (first_drift (trace b xs2)).
Proof.
  intros xs1 xs2 a b HF. revert a b.
  induction HF as [|x1 x2 xs1 xs2 Hx _ IH]; intros a b Hr Hnd; [exact I|].
  cbn [trace first_drift]. rewrite !o_ds_observe.
  destruct (update_lockstep2 a b x1 x2 Hr Hx Hnd) as [Hd | [Hnd' Hr']].
  - rewrite Hd. cbn [is_drift].
    destruct (is_drift (ds (update b x2))); [simpl; lia|].
    destruct (first_drift (trace (update b x2) xs2)); simpl; [lia | exact I].
  - assert (Hds : ds (update b x2) = ds (update a x1)) by (destruct Hr' as (_ & _ & _ & H & _); congruence).
    rewrite Hds.
    destruct (is_drift (ds (update a x1))) eqn:Ed.
    + simpl. lia.
    + specialize (IH (update a x1) (update b x2) Hr' Hnd').
      destruct (first_drift (trace (update a x1) xs1)), (first_drift (trace (update b x2) xs2)); simpl in *; try lia; exact IH.
Qed.

(** ... and while the looser run reports no drift the two observable traces coincide *)
Theorem same_until_first_drift2 : forall xs1 xs2 (a : st L1) (b : st L2), Forall2 xrel xs1 xs2 ->
  srel2 a b -> ds a <> DDrift ->
  first_drift (trace a xs1) = None -> trace b xs2 = trace a xs1.
Proof.
  intros xs1 xs2 a b HF. revert a b.
  induction HF as [|x1 x2 xs1 xs2 Hx _ IH]; intros a b Hr Hnd Hf; [reflexivity|].
  cbn [trace first_drift] in *. rewrite o_ds_observe in Hf.
  destruct (is_drift (ds (update a x1))) eqn:Ed; [discriminate|].
  destruct (update_lockstep2 a b x1 x2 Hr Hx Hnd) as [Hd | [Hnd' Hr']].
  - rewrite Hd in Ed. discriminate.
  - rewrite (observe_srel2 _ _ Hr'). f_equal. apply IH; [exact Hr' | exact Hnd'|].
    destruct (first_drift (trace (update a x1) xs1)); [discriminate | reflexivity].
Qed.
End TwoStreams.

(** ---- loosening only the warning threshold, two related input streams (1 = looser warning) ---- *)
Section TwoStreamsWarn.
Variables (E0 X1 X2 : Type) (reset0 : E0 -> E0) (pol : recs_policy).
Variable step1 : E0 -> Z -> X1 -> E0 * option dstate.
Variable step2 : E0 -> Z -> X2 -> E0 * option dstate.
Variable xrel : X1 -> X2 -> Prop.
Variable erel : E0 -> E0 -> Prop.
Notation W1 := (L1 E0 X1 reset0 pol step1).
Notation W2 := (L2 E0 X2 reset0 pol step2).

Hypothesis reset_rel : forall e1 e2, erel e1 e2 -> erel (reset0 e1) (reset0 e2).
Hypothesis same_state : forall e1 e2 n x1 x2, erel e1 e2 -> xrel x1 x2 ->
  erel (fst (step1 e1 n x1)) (fst (step2 e2 n x2)).
Hypothesis same_drift : forall e1 e2 n x1 x2, erel e1 e2 -> xrel x1 x2 ->
  (snd (step1 e1 n x1) = Some DDrift <-> snd (step2 e2 n x2) = Some DDrift).
Hypothesis same_decided : forall e1 e2 n x1 x2, erel e1 e2 -> xrel x1 x2 ->
  (snd (step1 e1 n x1) = None <-> snd (step2 e2 n x2) = None).
Hypothesis warn_kept : forall e1 e2 n x1 x2, erel e1 e2 -> xrel x1 x2 ->
  snd (step2 e2 n x2) = Some DWarn -> snd (step1 e1 n x1) = Some DWarn.

Definition wrel2 (a : st W1) (b : st W2) : Prop :=
  erel (epoch a) (epoch b) /\ total a = total b /\ since a = since b /\
  (ds a = DDrift <-> ds b = DDrift) /\ (ds b = DWarn -> ds a = DWarn).

Lemma update_wrel2 a b x1 x2 : wrel2 a b -> xrel x1 x2 -> wrel2 (update a x1) (update b x2).
Proof.
  intros (He & Ht & Hs & Hd & Hw) Hx.
  assert (Hpre : erel (epoch (pre W1 a)) (epoch (pre W2 b)) /\ total (pre W1 a) = total (pre W2 b) /\
                 since (pre W1 a) = since (pre W2 b) /\
                 (ds (pre W2 b) = DWarn -> ds (pre W1 a) = DWarn)).
  { unfold pre.
    destruct (ds a) eqn:Ea; destruct (ds b) eqn:Eb;
      try (exfalso; destruct Hd as [H1 H2]; first [discriminate (H1 eq_refl) | discriminate (H2 eq_refl)]);
      try (exfalso; discriminate (Hw eq_refl));
      simpl; rewrite ?Ea, ?Eb; repeat split; try assumption; try discriminate; try reflexivity;
      try (apply reset_rel; assumption); try (intros; congruence). }
  destruct Hpre as (He' & Ht' & Hs' & Hw').
  rewrite (update_eq W1 a x1), (update_eq W2 b x2). cbv zeta. unfold wrel2. simpl.
  rewrite Ht', Hs'.
  pose proof (same_state (epoch (pre W1 a)) (epoch (pre W2 b)) (since (pre W2 b) + 1) x1 x2 He' Hx) as SS.
  pose proof (same_drift (epoch (pre W1 a)) (epoch (pre W2 b)) (since (pre W2 b) + 1) x1 x2 He' Hx) as SD.
  pose proof (same_decided (epoch (pre W1 a)) (epoch (pre W2 b)) (since (pre W2 b) + 1) x1 x2 He' Hx) as SN.
  pose proof (warn_kept (epoch (pre W1 a)) (epoch (pre W2 b)) (since (pre W2 b) + 1) x1 x2 He' Hx) as WK.
  destruct (snd (step1 (epoch (pre W1 a)) (since (pre W2 b) + 1) x1)) as [d1|] eqn:E1;
  destruct (snd (step2 (epoch (pre W2 b)) (since (pre W2 b) + 1) x2)) as [d2|] eqn:E2;
    (split; [exact SS|]); repeat split; try reflexivity; intros.
  - subst. destruct SD as [SD _]. specialize (SD eq_refl). congruence.
  - subst. destruct SD as [_ SD]. specialize (SD eq_refl). congruence.
  - subst. specialize (WK eq_refl). congruence.
  - destruct SN as [_ SN]. specialize (SN eq_refl). discriminate.
  - destruct SN as [_ SN]. specialize (SN eq_refl). discriminate.
  - destruct SN as [_ SN]. specialize (SN eq_refl). discriminate.
  - destruct SN as [SN _]. specialize (SN eq_refl). discriminate.
  - destruct SN as [SN _]. specialize (SN eq_refl). discriminate.
  - destruct SN as [SN _]. specialize (SN eq_refl). discriminate.
  - unfold pre in *. destruct (is_drift (ds a)) eqn:Ea; simpl in *; [discriminate|].
    destruct (ds a); simpl in *; congruence.
  - unfold pre in *. destruct (is_drift (ds b)) eqn:Eb; simpl in *; [discriminate|].
    destruct (ds b); simpl in *; congruence.
  - apply Hw'. assumption.
Qed.

(** drifts in exactly the same places over the whole run, every warning of the stricter warning setting
    is a warning of the looser one, counters identical *)
Theorem warning_loosening2 : forall xs1 xs2 a b, Forall2 xrel xs1 xs2 -> wrel2 a b ->
  Forall2 (fun o1 o2 => (o_ds o1 = DDrift <-> o_ds o2 = DDrift) /\ (o_ds o2 = DWarn -> o_ds o1 = DWarn)
                         /\ o_total o1 = o_total o2 /\ o_since o1 = o_since o2)
          (trace a xs1) (trace b xs2).
Proof.
  intros xs1 xs2 a b HF. revert a b.
  induction HF as [|x1 x2 xs1 xs2 Hx _ IH]; intros a b H; simpl; [constructor|].
  pose proof (update_wrel2 a b x1 x2 H Hx) as H'. constructor; [|apply IH; exact H'].
  destruct H' as (_ & Ht & Hs & Hd & Hw). unfold observe; simpl. repeat split; try assumption; apply Hd.
Qed.
End TwoStreamsWarn.
