(** C17 for the kdq-tree detectors: a smaller alpha never moves the first reported drift to an
    earlier sample / batch.  Lemmas (statements: Prop_C17_kdq.v).

    Two runs of the model KdqDet.v on the SAME inputs - the same rows / batches, the same oracle
    answers ([kl], [trunc], [rint]) and the same bootstrap divergence lists (same numpy seed
    schedule) - with parameters that differ only in alpha: [aL] (looser, larger) and [aS]
    (stricter, smaller).  Everything is proved from
      - [TransLaws N]: transitivity of <= and the two mixed transitivities (true of ALL IEEE doubles,
        NaN included: NumLaws.TransLaws / FloatLaws.v), and
      - [crit_le B] for every bootstrap list [B] carried by the inputs:
        B = [] (never handed to np.quantile) or critical_value aL B <= critical_value aS B.
    The second half of the file derives [crit_le] from hypotheses on the virtual indices
    around((n-1)*(1-alpha)): under [OrdLaws] (via quantile_nearest_antitone_alpha), and under
    [TransLaws] alone for lists whose elements are pairwise comparable (doubles: no NaN). *)
From MV Require Import Base Num NumLaws Lifecycle Lifecycle_Mono KdqTree KdqDet KdqDet_Proofs.
From Coq Require Import ZifyBool Permutation Sorted.

Section Mono.
Context {N : Num}.
Local Open Scope num_scope.
Notation F := (F N).
Notation tree := (tree N).
Notation point := (point N).
Variable trunc : F -> F.
Variable rint : F -> Z.
Variable kl : list F -> list F -> F.
Variable T : TransLaws N.
Variable p : kdq_params N.       (* every parameter but alpha *)
Variables aL aS : F.              (* looser (larger) and stricter (smaller) alpha *)

Definition with_alpha (a : F) : kdq_params N :=
  @Build_kdq_params N (k_w p) (k_pers p) a (k_cub p) (k_clb p) (k_m p).
Notation pL := (with_alpha aL).
Notation pS := (with_alpha aS).

(** the bound of the looser setting is not above the bound of the stricter one *)
Definition crit_le (B : list F) : Prop :=
  B = [] \/ fleb (critical_value rint aL B) (critical_value rint aS B) = true.

Definition crel (cl cs : option F) : Prop :=
  cl = cs \/ exists a b, cl = Some a /\ cs = Some b /\ fleb a b = true.

Lemma nth_nil {A} (k : nat) (d : A) : nth k [] d = d.
Proof. destruct k; reflexivity. Qed.

Lemma crit_le_crel B : crit_le B ->
  crel (Some (critical_value rint aL B)) (Some (critical_value rint aS B)).
Proof.
  intros [->|H].
  - left. unfold critical_value, quantile_nearest. change (fsort (@nil F)) with (@nil F). rewrite !nth_nil. reflexivity.
  - right. eexists. eexists. repeat split. exact H.
Qed.

(** whatever exceeds the stricter bound exceeds the looser one *)
Lemma above_mono cl cs d : crel cl cs -> above cs d = true -> above cl d = true.
Proof.
  intros [->|(a & b & -> & -> & Hab)] H; [exact H|].
  destruct d as [d|]; simpl in *; [|discriminate].
  exact (tl_le_lt_trans N T a b d Hab H).
Qed.

Lemma kbuild_alpha a (data : list point) : kbuild trunc (with_alpha a) data = kbuild trunc p data.
Proof. reflexivity. Qed.

(** ================================================================== KdqTreeBatch *)
Definition brel (a b : kbatch N) : Prop :=
  b_total a = b_total b /\ b_since a = b_since b /\ b_ds a = b_ds b /\ b_tree a = b_tree b /\
  b_tdist a = b_tdist b /\ b_refdata a = b_refdata b /\ b_oof a = b_oof b /\ b_bootq a = b_bootq b /\
  crel (b_crit a) (b_crit b).

Definition bop_boot (o : bop N) : list F := match o with BSetRef x => snd x | BUpdate x => snd x end.

Lemma brel_isr a b x : b_total a = b_total b -> b_refdata a = b_refdata b -> crit_le (snd x) ->
  brel (kb_inner_set_reference trunc rint pL a x) (kb_inner_set_reference trunc rint pS b x).
Proof.
  intros Ht Hr Hc. unfold brel, kb_inner_set_reference. simpl. rewrite !kbuild_alpha.
  repeat split; try assumption. apply crit_le_crel. exact Hc.
Qed.

Lemma bapp_lockstep a b o : brel a b -> b_ds a <> DDrift -> crit_le (bop_boot o) ->
  b_ds (kb_apply trunc rint kl pL a o) = DDrift \/
  (b_ds (kb_apply trunc rint kl pL a o) <> DDrift /\
   brel (kb_apply trunc rint kl pL a o) (kb_apply trunc rint kl pS b o)).
Proof.
  intros (Ht & Hs & Hd & Htr & Htd & Hr & Ho & Hq & Hc) Hnd Hb.
  destruct o as [x|x]; cbn [kb_apply bop_boot] in *.
  - right. split; [simpl; discriminate|]. apply brel_isr; assumption.
  - assert (Ea : is_drift (b_ds a) = false) by (destruct (b_ds a); try reflexivity; congruence).
    assert (Eb : is_drift (b_ds b) = false) by (rewrite <- Hd; exact Ea).
    unfold kb_update. rewrite Ea, Eb, <- Htr.
    destruct (b_tree a) as [t|].
    + destruct (above (b_crit b) (divergence kl (fill (fst x) t 1 true))) eqn:As.
      * left. rewrite (above_mono _ _ _ Hc As). reflexivity.
      * destruct (above (b_crit a) (divergence kl (fill (fst x) t 1 true))) eqn:Al.
        -- left. reflexivity.
        -- right. split; [exact Hnd|]. unfold brel. simpl. repeat split; try assumption; try lia.
    + right. split; [simpl; discriminate|]. apply brel_isr; simpl; try assumption; lia.
Qed.

Lemma brel_observe a b : brel a b -> kb_observe b = kb_observe a.
Proof. intros (Ht & Hs & Hd & _). unfold kb_observe. rewrite Ht, Hs, Hd. reflexivity. Qed.

Lemma batch_first_drift_monotone : forall ops (a b : kbatch N), brel a b -> b_ds a <> DDrift ->
  Forall (fun o => crit_le (bop_boot o)) ops ->
  opt_le (first_drift (kb_trace trunc rint kl pL a ops)) (first_drift (kb_trace trunc rint kl pS b ops)).
Proof.
  induction ops as [|o ops IH]; intros a b Hr Hnd Hf; [exact I|].
  inversion Hf as [|? ? Ho Hf']; subst.
  cbn [kb_trace first_drift].
  change (o_ds (kb_observe (kb_apply trunc rint kl pL a o))) with (b_ds (kb_apply trunc rint kl pL a o)).
  change (o_ds (kb_observe (kb_apply trunc rint kl pS b o))) with (b_ds (kb_apply trunc rint kl pS b o)).
  destruct (bapp_lockstep a b o Hr Hnd Ho) as [Hd | [Hnd' Hr']].
  - rewrite Hd. cbn [is_drift].
    destruct (is_drift (b_ds (kb_apply trunc rint kl pS b o))); [simpl; lia|].
    destruct (first_drift (kb_trace trunc rint kl pS (kb_apply trunc rint kl pS b o) ops)); simpl; [lia | exact I].
  - assert (Hds : b_ds (kb_apply trunc rint kl pS b o) = b_ds (kb_apply trunc rint kl pL a o))
      by (destruct Hr' as (_ & _ & H & _); congruence).
    rewrite Hds. destruct (is_drift (b_ds (kb_apply trunc rint kl pL a o))) eqn:Ed; [simpl; lia|].
    specialize (IH _ _ Hr' Hnd' Hf').
    destruct (first_drift (kb_trace trunc rint kl pL _ ops)), (first_drift (kb_trace trunc rint kl pS _ ops));
      simpl in *; try lia; exact IH.
Qed.

Lemma batch_same_until_first_drift : forall ops (a b : kbatch N), brel a b -> b_ds a <> DDrift ->
  Forall (fun o => crit_le (bop_boot o)) ops ->
  first_drift (kb_trace trunc rint kl pL a ops) = None ->
  kb_trace trunc rint kl pS b ops = kb_trace trunc rint kl pL a ops.
Proof.
  induction ops as [|o ops IH]; intros a b Hr Hnd Hf Hn; [reflexivity|].
  inversion Hf as [|? ? Ho Hf']; subst.
  cbn [kb_trace first_drift] in *.
  change (o_ds (kb_observe (kb_apply trunc rint kl pL a o))) with (b_ds (kb_apply trunc rint kl pL a o)) in Hn.
  destruct (is_drift (b_ds (kb_apply trunc rint kl pL a o))) eqn:Ed; [discriminate|].
  destruct (bapp_lockstep a b o Hr Hnd Ho) as [Hd | [Hnd' Hr']].
  - rewrite Hd in Ed. discriminate.
  - rewrite (brel_observe _ _ Hr'). f_equal. apply IH; try assumption.
    destruct (first_drift (kb_trace trunc rint kl pL _ ops)); [discriminate | reflexivity].
Qed.

Lemma brel_init : brel kb_init kb_init.
Proof. unfold brel. repeat split. left. reflexivity. Qed.

(** ================================================================== KdqTreeStreaming *)
(** [P c]: a counter value [c] alarms *)
Definition alarms (c : Z) : bool := k_pers p * fofZ (k_w p) <? fofZ c.

(** same statistics; the stricter counter is behind the looser one, and no value the looser counter
    has passed through in its current run alarmed *)
Definition srel (a b : kstream N) : Prop :=
  s_total a = s_total b /\ s_since a = s_since b /\ s_ds a = s_ds b /\ s_ref a = s_ref b /\
  s_tree a = s_tree b /\ s_tsize a = s_tsize b /\ s_tdist a = s_tdist b /\ s_oof a = s_oof b /\
  s_bootq a = s_bootq b /\ crel (s_crit a) (s_crit b) /\
  (0 <= s_counter b <= s_counter a)%Z /\
  (forall c, (1 <= c <= s_counter a)%Z -> alarms c = false).

Lemma srel_set_reference a b ary B : s_total a = s_total b -> crit_le B ->
  srel (ks_set_reference trunc rint pL a ary B) (ks_set_reference trunc rint pS b ary B).
Proof.
  intros Ht Hc. unfold srel, ks_set_reference, ks_reset. simpl. rewrite !kbuild_alpha.
  repeat split; try assumption; try lia. apply crit_le_crel. exact Hc.
Qed.

Lemma evl_lockstep a b x B : srel a b -> s_ds a <> DDrift -> crit_le B ->
  s_ds (ks_evaluate trunc rint kl pL a x B) = DDrift \/
  (s_ds (ks_evaluate trunc rint kl pL a x B) <> DDrift /\
   srel (ks_evaluate trunc rint kl pL a x B) (ks_evaluate trunc rint kl pS b x B)).
Proof.
  intros (Ht & Hs & Hd & Hrf & Htr & Hts & Htd & Ho & Hq & Hc & Hcnt & Hp) Hnd HB.
  unfold ks_evaluate. rewrite <- Htr, <- Hrf, <- Hts.
  change (k_w pL) with (k_w p). change (k_w pS) with (k_w p).
  change (k_pers pL) with (k_pers p). change (k_pers pS) with (k_pers p).
  destruct (s_tree a) as [t|].
  - destruct (k_w p <=? s_tsize a + 1)%Z.
    + set (d := divergence kl (fill [x] t 1 false)).
      destruct (above (s_crit b) d) eqn:As.
      * rewrite (above_mono _ _ _ Hc As).
        fold (alarms (s_counter a + 1)). fold (alarms (s_counter b + 1)).
        destruct (alarms (s_counter a + 1)) eqn:Pa; [left; reflexivity|].
        right. split; [exact Hnd|].
        assert (Pb : alarms (s_counter b + 1) = false).
        { destruct (Z.eq_dec (s_counter b + 1) (s_counter a + 1)) as [E|E]; [rewrite E; exact Pa|].
          apply Hp. lia. }
        rewrite Pb. unfold srel. simpl. repeat split; try assumption; try lia.
        intros c Hc'. destruct (Z.eq_dec c (s_counter a + 1)) as [->|E]; [exact Pa | apply Hp; lia].
      * destruct (above (s_crit a) d) eqn:Al.
        -- fold (alarms (s_counter a + 1)).
           destruct (alarms (s_counter a + 1)) eqn:Pa; [left; reflexivity|].
           right. split; [exact Hnd|]. unfold srel. simpl. repeat split; try assumption; try lia.
           intros c Hc'. destruct (Z.eq_dec c (s_counter a + 1)) as [->|E]; [exact Pa | apply Hp; lia].
        -- right. split; [exact Hnd|]. unfold srel. simpl. repeat split; try assumption; try lia.
    + right. split; [exact Hnd|]. unfold srel. simpl. repeat split; try assumption; try lia.
  - destruct (len (s_ref a ++ [x]) =? k_w p)%Z.
    + right. split; [simpl; discriminate|]. apply srel_set_reference; assumption.
    + right. split; [exact Hnd|]. unfold srel. simpl. repeat split; try assumption; try lia.
Qed.

Lemma upd_lockstep a b (x : sx N) : srel a b -> s_ds a <> DDrift -> crit_le (snd x) ->
  s_ds (ks_update trunc rint kl pL a x) = DDrift \/
  (s_ds (ks_update trunc rint kl pL a x) <> DDrift /\
   srel (ks_update trunc rint kl pL a x) (ks_update trunc rint kl pS b x)).
Proof.
  intros Hr Hnd HB.
  assert (Ea : is_drift (s_ds a) = false) by (destruct (s_ds a); try reflexivity; congruence).
  assert (Eb : is_drift (s_ds b) = false) by (destruct Hr as (_ & _ & Hd & _); rewrite <- Hd; exact Ea).
  unfold ks_update. rewrite Ea, Eb. apply evl_lockstep; [|exact Hnd | exact HB].
  destruct Hr as (Ht & Hs & Hd & Hrf & Htr & Hts & Htd & Ho & Hq & Hc & Hcnt & Hp).
  unfold srel. simpl. repeat split; try assumption; try lia; apply Hp.
Qed.

Lemma srel_observe a b : srel a b -> ks_observe b = ks_observe a.
Proof. intros (Ht & Hs & Hd & _). unfold ks_observe. rewrite Ht, Hs, Hd. reflexivity. Qed.

Lemma stream_first_drift_monotone : forall xs (a b : kstream N), srel a b -> s_ds a <> DDrift ->
  Forall (fun x : sx N => crit_le (snd x)) xs ->
  opt_le (first_drift (ks_trace trunc rint kl pL a xs)) (first_drift (ks_trace trunc rint kl pS b xs)).
Proof.
  induction xs as [|x xs IH]; intros a b Hr Hnd Hf; [exact I|].
  inversion Hf as [|? ? Hx Hf']; subst.
  cbn [ks_trace first_drift].
  change (o_ds (ks_observe (ks_update trunc rint kl pL a x))) with (s_ds (ks_update trunc rint kl pL a x)).
  change (o_ds (ks_observe (ks_update trunc rint kl pS b x))) with (s_ds (ks_update trunc rint kl pS b x)).
  destruct (upd_lockstep a b x Hr Hnd Hx) as [Hd | [Hnd' Hr']].
  - rewrite Hd. cbn [is_drift].
    destruct (is_drift (s_ds (ks_update trunc rint kl pS b x))); [simpl; lia|].
    destruct (first_drift (ks_trace trunc rint kl pS (ks_update trunc rint kl pS b x) xs)); simpl; [lia | exact I].
  - assert (Hds : s_ds (ks_update trunc rint kl pS b x) = s_ds (ks_update trunc rint kl pL a x))
      by (destruct Hr' as (_ & _ & H & _); congruence).
    rewrite Hds. destruct (is_drift (s_ds (ks_update trunc rint kl pL a x))) eqn:Ed; [simpl; lia|].
    specialize (IH _ _ Hr' Hnd' Hf').
    destruct (first_drift (ks_trace trunc rint kl pL _ xs)), (first_drift (ks_trace trunc rint kl pS _ xs));
      simpl in *; try lia; exact IH.
Qed.

Lemma stream_same_until_first_drift : forall xs (a b : kstream N), srel a b -> s_ds a <> DDrift ->
  Forall (fun x : sx N => crit_le (snd x)) xs ->
  first_drift (ks_trace trunc rint kl pL a xs) = None ->
  ks_trace trunc rint kl pS b xs = ks_trace trunc rint kl pL a xs.
Proof.
  induction xs as [|x xs IH]; intros a b Hr Hnd Hf Hn; [reflexivity|].
  inversion Hf as [|? ? Hx Hf']; subst.
  cbn [ks_trace first_drift] in *.
  change (o_ds (ks_observe (ks_update trunc rint kl pL a x))) with (s_ds (ks_update trunc rint kl pL a x)) in Hn.
  destruct (is_drift (s_ds (ks_update trunc rint kl pL a x))) eqn:Ed; [discriminate|].
  destruct (upd_lockstep a b x Hr Hnd Hx) as [Hd | [Hnd' Hr']].
  - rewrite Hd in Ed. discriminate.
  - rewrite (srel_observe _ _ Hr'). f_equal. apply IH; try assumption.
    destruct (first_drift (ks_trace trunc rint kl pL _ xs)); [discriminate | reflexivity].
Qed.

Lemma srel_init : srel ks_init ks_init.
Proof. unfold srel. simpl. repeat split; try lia. left. reflexivity. Qed.

End Mono.

(** ================================================================== where [crit_le] comes from *)
Section CritLe.
Context {N : Num}.
Local Open Scope num_scope.
Notation F := (F N).
Variable rint : F -> Z.
Variables aL aS : F.

(** the virtual indices of the two levels on a list of [n] values: both are positions and the
    stricter (smaller) alpha has the larger one *)
Definition ranks_ok (n : Z) : Prop :=
  (0 <= qrank rint n (qlevel aL) <= qrank rint n (qlevel aS))%Z /\ (qrank rint n (qlevel aS) < n)%Z.

(** under the total-preorder laws: directly from quantile_nearest_antitone_alpha *)
Lemma crit_le_ord (L : OrdLaws N) (B : list F) : (B <> [] -> ranks_ok (len B)) -> crit_le rint aL aS B.
Proof.
  intros H. destruct B as [|x B]; [left; reflexivity|]. right.
  destruct (H ltac:(discriminate)) as [H1 H2].
  exact (critical_value_antitone rint L (x :: B) aS aL H1 H2).
Qed.

(** under [TransLaws] alone, for a list whose elements are pairwise comparable (for doubles: a list
    without NaN): the insertion sort of such a list is sorted, so a larger index gives a larger value *)
Variable T : TransLaws N.

Definition comparable (l : list F) : Prop :=
  forall x y, In x l -> In y l -> fleb x y = true \/ fleb y x = true.

Lemma insert_sorted_dom (x : F) (l : list F) :
  (forall y, In y l -> fleb x y = true \/ fleb y x = true) ->
  StronglySorted fle l -> StronglySorted fle (insert x l).
Proof.
  intros Hx Hs. induction Hs as [|y t Hs IH Hall]; simpl; [repeat constructor|].
  destruct (fleb x y) eqn:E.
  - constructor; [constructor; assumption|].
    constructor; [exact E|]. eapply Forall_impl; [|exact Hall]. intros z Hz.
    exact (tl_le_trans N T x y z E Hz).
  - constructor; [apply IH; intros z Hz; apply Hx; right; exact Hz|].
    eapply Permutation_Forall; [apply Permutation_sym, insert_perm|].
    constructor; [|exact Hall].
    destruct (Hx y (or_introl eq_refl)) as [H|H]; [unfold fle in *; congruence | exact H].
Qed.

Lemma fsort_sorted_dom (l : list F) : comparable l -> StronglySorted fle (fsort l).
Proof.
  induction l as [|x t IH]; intros Hc; simpl; [constructor|].
  apply insert_sorted_dom.
  - intros y Hy. apply Hc; [left; reflexivity | right].
    eapply Permutation_in; [apply fsort_perm | exact Hy].
  - apply IH. intros a b Ha Hb. apply Hc; right; assumption.
Qed.

Lemma sorted_nth_mono_dom (s : list F) (d : F) : StronglySorted fle s -> (forall x, In x s -> fle x x) ->
  forall i j, (i <= j)%nat -> (j < length s)%nat -> fle (nth i s d) (nth j s d).
Proof.
  induction 1 as [|a t Hs IH Hall]; intros Hrefl i j Hij Hj; simpl in Hj; [lia|].
  destruct i as [|i], j as [|j]; simpl; try lia.
  - apply Hrefl. left. reflexivity.
  - rewrite Forall_forall in Hall. apply Hall. apply nth_In. lia.
  - apply IH; [intros x Hx; apply Hrefl; right; exact Hx | lia | lia].
Qed.

Lemma crit_le_comparable (B : list F) : comparable B -> (B <> [] -> ranks_ok (len B)) -> crit_le rint aL aS B.
Proof.
  intros Hc H. destruct B as [|x B]; [left; reflexivity|]. right.
  destruct (H ltac:(discriminate)) as [H1 H2].
  unfold critical_value, quantile_nearest.
  apply sorted_nth_mono_dom.
  - apply fsort_sorted_dom. exact Hc.
  - intros y Hy. assert (Hy' : In y (x :: B)) by (eapply Permutation_in; [apply fsort_perm | exact Hy]).
    destruct (Hc y y Hy' Hy'); assumption.
  - lia.
  - rewrite fsort_length. unfold len in *. lia.
Qed.

End CritLe.
