(** C17 for DDM (drift_scale, warning_scale) and Page-Hinkley (threshold) on the BIT-EXACT float model
    [NumFloat], without assuming [MonoLaws NumFloat] (which is false, see FloatMono.v / Prop_C17_ph_refuted.v).
    The arithmetic facts come from FloatMono.v (proved from Flocq).  They need finiteness of a few
    intermediate values; that is a computable boolean RUN CONDITION, evaluated by running the looser
    setting over the inputs and checking benign facts ("the tracked minimum and the standard deviation
    are finite", "the running mean is finite and threshold*mean did not underflow to a zero"), never
    the inequality that is to be proved.

    Because the generic theorems of Lifecycle_Mono.v quantify their hypotheses over ALL states, the
    lock-step inductions are redone here with the run condition threaded through. *)
From MV Require Import Base Num NumFloat FloatLaws FloatMono Lifecycle Lifecycle_Proofs Lifecycle_Mono
  Ddm Ddm_Proofs Pairwise ChangeDet ChangeDet_Proofs Mono_Proofs Corr.
From Coq Require Import PrimFloat.

(** ====================== generic machine: lock-step with a checked run ====================== *)
Section CheckedRun.
Variables (E0 X0 : Type) (reset0 : E0 -> E0) (pol : recs_policy).
Variables step1 step2 : E0 -> Z -> X0 -> E0 * option dstate.   (* 1 = looser, 2 = stricter *)
(** what is checked at one update, on the state the decision step of the looser run receives *)
Variable ok : E0 -> Z -> X0 -> bool.

Notation KA := (K1 E0 X0 reset0 pol step1).
Notation KB := (K2 E0 X0 reset0 pol step2).

Definition ok_at (s : st KA) (x : X0) : bool :=
  let s0 := pre KA s in ok (epoch s0) (since s0 + 1) x.

(** the check holds at every update of the looser run BEFORE its first reported drift
    (nothing is required at the update that reports the drift, nor after it) *)
Fixpoint run_ok (s : st KA) (xs : list X0) : bool :=
  match xs with
  | [] => true
  | x :: t => let s' := @update KA s x in
              if is_drift (ds s') then true else ok_at s x && run_ok s' t
  end.

(** the check holds at every update of the whole run *)
Fixpoint run_ok_all (s : st KA) (xs : list X0) : bool :=
  match xs with
  | [] => true
  | x :: t => ok_at s x && run_ok_all (@update KA s x) t
  end.

Lemma run_ok_firstn : forall k xs s, run_ok s xs = true -> run_ok s (firstn k xs) = true.
Proof.
  induction k as [|k IH]; intros [|x xs] s H; try reflexivity.
  cbn [firstn run_ok] in *. cbv zeta in *.
  destruct (is_drift (ds (@update KA s x))); [reflexivity|].
  apply andb_true_iff in H as [H1 H2]. rewrite H1. simpl. apply IH. exact H2.
Qed.

Lemma pre_id (K : kernel) (s : st K) : ds s <> DDrift -> pre K s = s.
Proof. intros H. unfold pre. destruct (ds s); simpl; congruence. Qed.

(** ---- making only the drift threshold stricter ---- *)
Section DriftThresholdOk.
Variable erel : E0 -> E0 -> Prop.
Hypothesis same_state : forall e1 e2 n x, erel e1 e2 -> erel (fst (step1 e1 n x)) (fst (step2 e2 n x)).
Hypothesis same_otherwise_ok : forall e1 e2 n x, erel e1 e2 -> ok e1 n x = true ->
  snd (step1 e1 n x) <> Some DDrift -> snd (step2 e2 n x) = snd (step1 e1 n x).

Notation srel' := (srel E0 X0 reset0 pol step1 step2 erel).

Lemma update_lockstep_ok (a : st KA) (b : st KB) x : srel' a b -> ds a <> DDrift ->
  ok (epoch a) (since a + 1) x = true ->
  (ds (update a x) = DDrift) \/
  (ds (update a x) <> DDrift /\ srel' (update a x) (update b x)).
Proof.
  intros (He & Ht & Hs & Hd & Hr) Hnd Hok.
  assert (Hp1 : pre KA a = a) by (apply pre_id; exact Hnd).
  assert (Hp2 : pre KB b = b) by (apply pre_id; rewrite <- Hd; exact Hnd).
  rewrite (update_eq KA a x), (update_eq KB b x). cbv zeta. rewrite Hp1, Hp2. simpl.
  pose proof (same_state (epoch a) (epoch b) (since a + 1) x He) as SS.
  pose proof (same_otherwise_ok (epoch a) (epoch b) (since a + 1) x He Hok) as SO.
  rewrite <- Hs, <- Ht, <- Hd, <- Hr.
  destruct (snd (step1 (epoch a) (since a + 1) x)) as [d|] eqn:E1.
  - destruct d.
    + right. split; [discriminate|]. rewrite (SO ltac:(discriminate)). unfold srel; simpl. repeat split; assumption.
    + right. split; [discriminate|]. rewrite (SO ltac:(discriminate)). unfold srel; simpl. repeat split; assumption.
    + left. reflexivity.
  - right. split; [exact Hnd|]. rewrite (SO ltac:(discriminate)). unfold srel; simpl. repeat split; assumption.
Qed.

Lemma run_ok_cons (a : st KA) x xs : ds a <> DDrift -> run_ok a (x :: xs) = true ->
  is_drift (ds (update a x)) = false -> ok (epoch a) (since a + 1) x = true /\ run_ok (update a x) xs = true.
Proof.
  intros Hnd H Ed. cbn [run_ok] in H. cbv zeta in H.
  change (@update KA a x) with (update a x) in H. rewrite Ed in H.
  unfold ok_at in H. rewrite (pre_id KA a Hnd) in H. apply andb_true_iff in H. exact H.
Qed.

(** the stricter run never reports its first drift before the looser one does *)
Theorem first_drift_monotone_ok : forall xs (a : st KA) (b : st KB), srel' a b -> ds a <> DDrift ->
  run_ok a xs = true ->
  opt_le (first_drift (trace a xs)) (first_drift (trace b xs)).
Proof.
  induction xs as [|x xs IH]; intros a b Hr Hnd Hok; [exact I|].
  cbn [trace first_drift]. rewrite !o_ds_observe.
  destruct (is_drift (ds (update a x))) eqn:Ed.
  - destruct (is_drift (ds (update b x))); [simpl; lia|].
    destruct (first_drift (trace (update b x) xs)); simpl; [lia | exact I].
  - destruct (run_ok_cons a x xs Hnd Hok Ed) as [Hk Hrest].
    destruct (update_lockstep_ok a b x Hr Hnd Hk) as [Hd | [Hnd' Hr']].
    + rewrite Hd in Ed. discriminate.
    + assert (Hds : ds (update b x) = ds (update a x)) by (destruct Hr' as (_ & _ & _ & H & _); congruence).
      rewrite Hds, Ed.
      specialize (IH (update a x) (update b x) Hr' Hnd' Hrest).
      destruct (first_drift (trace (update a x) xs)), (first_drift (trace (update b x) xs)); simpl in *; try lia; exact IH.
Qed.

(** ... and while the looser run reports no drift the two observable traces coincide *)
Theorem same_until_first_drift_ok : forall xs (a : st KA) (b : st KB), srel' a b -> ds a <> DDrift ->
  run_ok a xs = true ->
  first_drift (trace a xs) = None -> trace b xs = trace a xs.
Proof.
  induction xs as [|x xs IH]; intros a b Hr Hnd Hok Hf; [reflexivity|].
  cbn [trace first_drift] in *. rewrite o_ds_observe in Hf.
  destruct (is_drift (ds (update a x))) eqn:Ed; [discriminate|].
  destruct (run_ok_cons a x xs Hnd Hok Ed) as [Hk Hrest].
  destruct (update_lockstep_ok a b x Hr Hnd Hk) as [Hd | [Hnd' Hr']].
  - rewrite Hd in Ed. discriminate.
  - rewrite (observe_srel _ _ _ _ _ _ _ _ _ Hr'). f_equal. apply IH; [exact Hr' | exact Hnd' | exact Hrest |].
    destruct (first_drift (trace (update a x) xs)); [discriminate | reflexivity].
Qed.

(** the same, for every prefix of the inputs on which the looser run has not reported a drift *)
Corollary same_prefix_ok : forall k xs (a : st KA) (b : st KB), srel' a b -> ds a <> DDrift ->
  run_ok a xs = true ->
  first_drift (trace a (firstn k xs)) = None -> trace b (firstn k xs) = trace a (firstn k xs).
Proof.
  intros k xs a b Hr Hnd Hok. apply same_until_first_drift_ok; try assumption. apply run_ok_firstn. exact Hok.
Qed.
End DriftThresholdOk.

(** ---- loosening only the warning threshold (1 = looser warning), whole run, through resets ---- *)
Section WarningThresholdOk.
Hypothesis same_state : forall e n x, fst (step1 e n x) = fst (step2 e n x).
Hypothesis same_drift : forall e n x, ok e n x = true ->
  (snd (step1 e n x) = Some DDrift <-> snd (step2 e n x) = Some DDrift).
Hypothesis same_decided : forall e n x, ok e n x = true ->
  (snd (step1 e n x) = None <-> snd (step2 e n x) = None).
Hypothesis warn_kept : forall e n x, ok e n x = true ->
  snd (step2 e n x) = Some DWarn -> snd (step1 e n x) = Some DWarn.

Notation wrel' := (wrel E0 X0 reset0 pol step1 step2).

Lemma update_wrel_ok a b x : wrel' a b -> ok_at a x = true -> wrel' (update a x) (update b x).
Proof.
  intros (He & Ht & Hs & Hd & Hw) Hok. unfold ok_at in Hok. cbv zeta in Hok.
  assert (Hpre : epoch (pre KA a) = epoch (pre KB b) /\ total (pre KA a) = total (pre KB b) /\
                 since (pre KA a) = since (pre KB b) /\
                 ds (pre KA a) <> DDrift /\ ds (pre KB b) <> DDrift /\
                 (ds (pre KB b) = DWarn -> ds (pre KA a) = DWarn)).
  { unfold pre.
    destruct (ds a) eqn:Ea; destruct (ds b) eqn:Eb;
      try (exfalso; destruct Hd as [H1 H2]; first [discriminate (H1 eq_refl) | discriminate (H2 eq_refl)]);
      try (exfalso; discriminate (Hw eq_refl));
      simpl; rewrite ?Ea, ?Eb, ?He; repeat split; try assumption; try discriminate; try reflexivity;
      try (intros; congruence). }
  destruct Hpre as (He' & Ht' & Hs' & Hna & Hnb & Hw').
  rewrite He', Hs' in Hok.
  rewrite (update_eq KA a x), (update_eq KB b x). cbv zeta. unfold wrel. simpl.
  rewrite He', Ht', Hs'. rewrite (same_state (epoch (pre KB b)) (since (pre KB b) + 1) x).
  pose proof (same_drift (epoch (pre KB b)) (since (pre KB b) + 1) x Hok) as SD.
  pose proof (same_decided (epoch (pre KB b)) (since (pre KB b) + 1) x Hok) as SN.
  pose proof (warn_kept (epoch (pre KB b)) (since (pre KB b) + 1) x Hok) as WK.
  destruct (snd (step1 (epoch (pre KB b)) (since (pre KB b) + 1) x)) as [d1|] eqn:E1;
  destruct (snd (step2 (epoch (pre KB b)) (since (pre KB b) + 1) x)) as [d2|] eqn:E2;
    repeat split; try reflexivity; intros.
  - subst. destruct SD as [SD _]. specialize (SD eq_refl). congruence.
  - subst. destruct SD as [_ SD]. specialize (SD eq_refl). congruence.
  - subst. specialize (WK eq_refl). congruence.
  - destruct SN as [_ SN]. specialize (SN eq_refl). discriminate.
  - destruct SN as [_ SN]. specialize (SN eq_refl). discriminate.
  - destruct SN as [_ SN]. specialize (SN eq_refl). discriminate.
  - destruct SN as [SN _]. specialize (SN eq_refl). discriminate.
  - destruct SN as [SN _]. specialize (SN eq_refl). discriminate.
  - destruct SN as [SN _]. specialize (SN eq_refl). discriminate.
  - contradiction.
  - contradiction.
  - apply Hw'. assumption.
Qed.

Theorem warning_loosening_ok : forall xs a b, wrel' a b -> run_ok_all a xs = true ->
  Forall2 (fun o1 o2 => (o_ds o1 = DDrift <-> o_ds o2 = DDrift) /\ (o_ds o2 = DWarn -> o_ds o1 = DWarn)
                         /\ o_total o1 = o_total o2 /\ o_since o1 = o_since o2)
          (trace a xs) (trace b xs).
Proof.
  induction xs as [|x xs IH]; intros a b H Hok; simpl; [constructor|].
  cbn [run_ok_all] in Hok. apply andb_true_iff in Hok as [Hk Hrest].
  pose proof (update_wrel_ok a b x H Hk) as H'. constructor; [|apply IH; [exact H' | exact Hrest]].
  destruct H' as (_ & Ht & Hs & Hd & Hw). unfold observe; simpl. repeat split; try assumption; apply Hd.
Qed.
End WarningThresholdOk.
End CheckedRun.

(** ====================== DDM on the bit-exact float model ====================== *)
Local Open Scope num_scope.

Notation fparams_ddm := (@ddm_params NumFloat).
Notation fstate_ddm := (@ddm_e NumFloat).

(** the per-update check: once decisions are taken (n >= n_threshold), the tracked minimum error rate
    and the new standard deviation are finite.  (It does not mention the scales.) *)
Definition ddm_ok (p : fparams_ddm) (e : fstate_ddm) (n : Z) (x : bool) : bool :=
  (n <? ddm_n_threshold p)%Z ||
  (PrimFloat.is_finite (ddm_rmin' e n x) && PrimFloat.is_finite (ddm_sd' e n x)).

(** the scaled threshold test is antitone in the scale: only the SMALLER scale has to be finite *)
Lemma scaled_test_antitone_f (rmin sd v k1 k2 : F NumFloat) :
  PrimFloat.is_finite k1 = true -> fleb k1 k2 = true ->
  PrimFloat.is_finite rmin = true -> PrimFloat.is_finite sd = true -> fleb f0 sd = true ->
  fleb (rmin + k2 * sd) v = true -> fleb (rmin + k1 * sd) v = true.
Proof.
  intros Fk1 Hk Fr Fs Hs H.
  apply (float_leb_trans _ (PrimFloat.add rmin (PrimFloat.mul k2 sd))); [|exact H].
  apply add_mono_fin; [exact Fr|].
  apply mul_mono_fin_r; try assumption.
  apply (add_not_nan_r rmin). exact (proj1 (leb_true_not_nan _ _ H)).
Qed.

Lemma ddm_sd_nonneg_f (e : fstate_ddm) n x :
  PrimFloat.is_finite (ddm_sd' e n x) = true -> fleb f0 (ddm_sd' e n x) = true.
Proof.
  intros H. apply is_finite_not_nan in H. revert H. unfold ddm_sd'. cbv zeta. apply sqrt_nonneg.
Qed.

Lemma ddm_ok_after (p : fparams_ddm) e n x : ddm_ok p e n x = true -> (ddm_n_threshold p <= n)%Z ->
  PrimFloat.is_finite (ddm_rmin' e n x) = true /\ PrimFloat.is_finite (ddm_sd' e n x) = true.
Proof.
  unfold ddm_ok. intros H Hn. apply orb_true_iff in H. destruct H as [H|H].
  - apply Z.ltb_lt in H. lia.
  - apply andb_true_iff in H. exact H.
Qed.

(** drift_scale: [ddm_ok] depends on n_threshold only *)
Lemma ddm_drift_mono_f (p : fparams_ddm) (k1 k2 : F NumFloat) e n x :
  PrimFloat.is_finite k1 = true -> PrimFloat.leb k1 k2 = true -> ddm_ok p e n x = true ->
  snd (ddm_step (ddm_with_drift p k2) e n x) = Some DDrift ->
  snd (ddm_step (ddm_with_drift p k1) e n x) = Some DDrift.
Proof.
  intros Fk1 Hk Hok. destruct (Z.lt_ge_cases n (ddm_n_threshold p)) as [Hn|Hn].
  - intros H. apply ddm_warmup in H. simpl in H. lia.
  - destruct (ddm_ok_after p e n x Hok Hn) as [Fr Fs].
    rewrite !(ddm_decision _ e n x) by (simpl; lia). cbv zeta. cbn [ddm_drift_scale ddm_warning_scale ddm_with_drift].
    destruct (fleb (ddm_rmin' e n x + k2 * ddm_sd' e n x) (ddm_rate' e n x + ddm_sd' e n x)) eqn:E2.
    + intros _.
      rewrite (scaled_test_antitone_f _ _ _ k1 k2 Fk1 Hk Fr Fs (ddm_sd_nonneg_f e n x Fs) E2). reflexivity.
    + destruct (fleb (ddm_rmin' e n x + ddm_warning_scale p * ddm_sd' e n x) _); discriminate.
Qed.

Lemma ddm_drift_same_otherwise_f (p : fparams_ddm) (k1 k2 : F NumFloat) e n x :
  PrimFloat.is_finite k1 = true -> PrimFloat.leb k1 k2 = true -> ddm_ok p e n x = true ->
  snd (ddm_step (ddm_with_drift p k1) e n x) <> Some DDrift ->
  snd (ddm_step (ddm_with_drift p k2) e n x) = snd (ddm_step (ddm_with_drift p k1) e n x).
Proof.
  intros Fk1 Hk Hok Hnd. destruct (Z.lt_ge_cases n (ddm_n_threshold p)) as [Hn|Hn].
  - assert (H1 : forall k, snd (ddm_step (ddm_with_drift p k) e n x) = None).
    { intros k. apply ddm_gate_iff. unfold ddm_gate. simpl. apply Z.leb_gt. exact Hn. }
    rewrite !H1. reflexivity.
  - pose proof (ddm_drift_mono_f p k1 k2 e n x Fk1 Hk Hok) as Hm.
    rewrite !(ddm_decision _ e n x) in * by (simpl; lia). cbv zeta in *.
    cbn [ddm_drift_scale ddm_warning_scale ddm_with_drift] in *.
    destruct (fleb (ddm_rmin' e n x + k1 * ddm_sd' e n x) (ddm_rate' e n x + ddm_sd' e n x)) eqn:E1; [congruence|].
    destruct (fleb (ddm_rmin' e n x + k2 * ddm_sd' e n x) (ddm_rate' e n x + ddm_sd' e n x)) eqn:E2; [|reflexivity].
    specialize (Hm eq_refl). destruct (fleb _ _) in Hm; discriminate.
Qed.

(** the run condition of the drift_scale theorem: run the looser setting [k1] and check [ddm_ok] at every
    update before its first reported drift *)
Definition ddm_run_ok_p (p : fparams_ddm) (k1 : float) (xs : list bool) : bool :=
  run_ok ddm_e bool (fun _ => ddm_e0) PolFirstWarn (ddm_step (ddm_with_drift p k1)) (ddm_ok p)
         (init (DDM (ddm_with_drift p k1)) ddm_e0) xs.

(** stable name for the harness: n_threshold, warning_scale, looser drift_scale, inputs *)
Definition ddm_run_ok (nthr : Z) (ws k1 : float) (errs : list bool) : bool :=
  ddm_run_ok_p (ddm_p nthr ws k1) k1 errs.

Notation FD K e xs := (first_drift (trace (init K e) xs)).

Theorem ddm_drift_scale_float : forall (p : fparams_ddm) (k1 k2 : float) (xs : list bool),
  PrimFloat.is_finite k1 = true -> PrimFloat.leb k1 k2 = true -> ddm_run_ok_p p k1 xs = true ->
  opt_le (FD (DDM (ddm_with_drift p k1)) ddm_e0 xs) (FD (DDM (ddm_with_drift p k2)) ddm_e0 xs).
Proof.
  intros p k1 k2 xs Fk1 Hk Hok.
  apply (first_drift_monotone_ok ddm_e bool (fun _ => ddm_e0) PolFirstWarn
           (ddm_step (ddm_with_drift p k1)) (ddm_step (ddm_with_drift p k2)) (ddm_ok p) eq).
  - intros e1 e2 n x <-. apply ddm_same_state. reflexivity.
  - intros e1 e2 n x <- Hk' Hnd. exact (ddm_drift_same_otherwise_f p k1 k2 e1 n x Fk1 Hk Hk' Hnd).
  - unfold srel, init; simpl. repeat split.
  - simpl. discriminate.
  - exact Hok.
Qed.

Theorem ddm_drift_scale_float_same : forall (p : fparams_ddm) (k1 k2 : float) (xs : list bool),
  PrimFloat.is_finite k1 = true -> PrimFloat.leb k1 k2 = true -> ddm_run_ok_p p k1 xs = true ->
  forall k, FD (DDM (ddm_with_drift p k1)) ddm_e0 (firstn k xs) = None ->
  trace (init (DDM (ddm_with_drift p k2)) ddm_e0) (firstn k xs) =
  trace (init (DDM (ddm_with_drift p k1)) ddm_e0) (firstn k xs).
Proof.
  intros p k1 k2 xs Fk1 Hk Hok k.
  apply (same_prefix_ok ddm_e bool (fun _ => ddm_e0) PolFirstWarn
           (ddm_step (ddm_with_drift p k1)) (ddm_step (ddm_with_drift p k2)) (ddm_ok p) eq).
  - intros e1 e2 n x <-. apply ddm_same_state. reflexivity.
  - intros e1 e2 n x <- Hk' Hnd. exact (ddm_drift_same_otherwise_f p k1 k2 e1 n x Fk1 Hk Hk' Hnd).
  - unfold srel, init; simpl. repeat split.
  - simpl. discriminate.
  - exact Hok.
Qed.

(** ---- warning_scale: k1 <= k2, k1 the looser warning scale; whole run, through every reset ---- *)
Lemma ddm_warn_obligations_f (p : fparams_ddm) (k1 k2 : F NumFloat) e n x :
  PrimFloat.is_finite k1 = true -> PrimFloat.leb k1 k2 = true -> ddm_ok p e n x = true ->
  (snd (ddm_step (ddm_with_warn p k1) e n x) = Some DDrift <-> snd (ddm_step (ddm_with_warn p k2) e n x) = Some DDrift) /\
  (snd (ddm_step (ddm_with_warn p k1) e n x) = None <-> snd (ddm_step (ddm_with_warn p k2) e n x) = None) /\
  (snd (ddm_step (ddm_with_warn p k2) e n x) = Some DWarn -> snd (ddm_step (ddm_with_warn p k1) e n x) = Some DWarn).
Proof.
  intros Fk1 Hk Hok. destruct (Z.lt_ge_cases n (ddm_n_threshold p)) as [Hn|Hn].
  - assert (H1 : forall k, snd (ddm_step (ddm_with_warn p k) e n x) = None).
    { intros k. apply ddm_gate_iff. unfold ddm_gate. simpl. apply Z.leb_gt. exact Hn. }
    rewrite !H1. repeat split; intros; congruence.
  - destruct (ddm_ok_after p e n x Hok Hn) as [Fr Fs].
    rewrite !(ddm_decision _ e n x) by (simpl; lia). cbv zeta. cbn [ddm_drift_scale ddm_warning_scale ddm_with_warn].
    destruct (fleb (ddm_rmin' e n x + ddm_drift_scale p * ddm_sd' e n x) (ddm_rate' e n x + ddm_sd' e n x)).
    + repeat split; intros; congruence.
    + destruct (fleb (ddm_rmin' e n x + k2 * ddm_sd' e n x) (ddm_rate' e n x + ddm_sd' e n x)) eqn:E2.
      * rewrite (scaled_test_antitone_f _ _ _ k1 k2 Fk1 Hk Fr Fs (ddm_sd_nonneg_f e n x Fs) E2).
        repeat split; intros; congruence.
      * destruct (fleb (ddm_rmin' e n x + k1 * ddm_sd' e n x) _); repeat split; intros; congruence.
Qed.

Definition ddm_warn_run_ok_p (p : fparams_ddm) (k1 : float) (xs : list bool) : bool :=
  run_ok_all ddm_e bool (fun _ => ddm_e0) PolFirstWarn (ddm_step (ddm_with_warn p k1)) (ddm_ok p)
             (init (DDM (ddm_with_warn p k1)) ddm_e0) xs.

(** stable name for the harness: n_threshold, looser warning_scale, drift_scale, inputs *)
Definition ddm_warn_run_ok (nthr : Z) (k1 dsc : float) (errs : list bool) : bool :=
  ddm_warn_run_ok_p (ddm_p nthr k1 dsc) k1 errs.

Definition warn_conclusion_f (t1 t2 : list obs) : Prop :=
  Forall2 (fun o1 o2 => (o_ds o1 = DDrift <-> o_ds o2 = DDrift) /\ (o_ds o2 = DWarn -> o_ds o1 = DWarn)
                         /\ o_total o1 = o_total o2 /\ o_since o1 = o_since o2) t1 t2.

Theorem ddm_warning_scale_float : forall (p : fparams_ddm) (k1 k2 : float) (xs : list bool),
  PrimFloat.is_finite k1 = true -> PrimFloat.leb k1 k2 = true -> ddm_warn_run_ok_p p k1 xs = true ->
  warn_conclusion_f (trace (init (DDM (ddm_with_warn p k1)) ddm_e0) xs)
                    (trace (init (DDM (ddm_with_warn p k2)) ddm_e0) xs).
Proof.
  intros p k1 k2 xs Fk1 Hk Hok.
  apply (warning_loosening_ok ddm_e bool (fun _ => ddm_e0) PolFirstWarn
           (ddm_step (ddm_with_warn p k1)) (ddm_step (ddm_with_warn p k2)) (ddm_ok p)).
  - intros e n x. apply ddm_same_state. reflexivity.
  - intros e n x H. exact (proj1 (ddm_warn_obligations_f p k1 k2 e n x Fk1 Hk H)).
  - intros e n x H. exact (proj1 (proj2 (ddm_warn_obligations_f p k1 k2 e n x Fk1 Hk H))).
  - intros e n x H. exact (proj2 (proj2 (ddm_warn_obligations_f p k1 k2 e n x Fk1 Hk H))).
  - unfold wrel, init; simpl. repeat split; intros; congruence.
  - exact Hok.
Qed.

(** ====================== Page-Hinkley on the bit-exact float model ====================== *)
Notation fparams_ph := (@ph_params NumFloat).
Notation fstate_ph := (@ph_e NumFloat).

(** the per-update check, once alarms are possible (n > burn_in): the new running mean is finite and
    NOT (mean < 0 and t1*mean is a zero) - the underflow corner of Prop_C17_ph_refuted.v -, and the new
    PH sum and the tracked extreme it is compared with are finite (so that their difference is >= 0
    and not NaN).  [t1] is the looser threshold. *)
Definition ph_ok (p : fparams_ph) (t1 : float) (e : fstate_ph) (n : Z) (x : float) : bool :=
  (n <=? ph_burn_in p)%Z ||
  (let m := ph_mean' e n x in
   PrimFloat.is_finite m && (PrimFloat.leb 0 m || PrimFloat.ltb (PrimFloat.mul t1 m) 0) &&
   PrimFloat.is_finite (ph_sum' p e n x) &&
   PrimFloat.is_finite (match ph_dir p with DirNeg => ph_max' p e n x | _ => ph_min' p e n x end)).

Lemma ph_diff_nonneg_f (p : fparams_ph) e n x :
  PrimFloat.is_finite (ph_sum' p e n x) = true ->
  PrimFloat.is_finite (match ph_dir p with DirNeg => ph_max' p e n x | _ => ph_min' p e n x end) = true ->
  PrimFloat.leb 0 (ph_diff' p e n x) = true.
Proof.
  unfold ph_diff', ph_diff, ph_min', ph_max'.
  set (s := ph_sum' p e n x). intros Fs Fm.
  pose proof (is_finite_not_nan s Fs) as Ns.
  destruct (ph_dir p); simpl in *.
  - (* sum - min *) apply sub_nonneg_fin; [exact Fm | exact Fs |].
    destruct (PrimFloat.ltb s (p_min e)) eqn:E; [apply leb_refl_nn; exact Ns|].
    rewrite (ltb_negb_leb_nn s (p_min e) Ns (is_finite_not_nan _ Fm)) in E.
    apply negb_false_iff in E. exact E.
  - (* max - sum *) apply sub_nonneg_fin; [exact Fs | exact Fm |].
    destruct (PrimFloat.ltb (p_max e) s) eqn:E; [apply leb_refl_nn; exact Ns|].
    rewrite (ltb_negb_leb_nn (p_max e) s (is_finite_not_nan _ Fm) Ns) in E.
    apply negb_false_iff in E. exact E.
  - apply sub_nonneg_fin; [exact Fm | exact Fs |].
    destruct (PrimFloat.ltb s (p_min e)) eqn:E; [apply leb_refl_nn; exact Ns|].
    rewrite (ltb_negb_leb_nn s (p_min e) Ns (is_finite_not_nan _ Fm)) in E.
    apply negb_false_iff in E. exact E.
Qed.

(** with finite 0 < t1 <= t2 (t2 may be +infinity) the test with t2 implies the test with t1 *)
Lemma ph_test_antitone_f (p : fparams_ph) (t1 t2 : float) e n x :
  PrimFloat.is_finite t1 = true -> PrimFloat.ltb 0 t1 = true -> PrimFloat.leb t1 t2 = true ->
  ph_ok p t1 e n x = true -> (ph_burn_in p < n)%Z ->
  ph_test (ph_with_thr p t2) e n x = true -> ph_test (ph_with_thr p t1) e n x = true.
Proof.
  intros Ft1 Hpos Ht Hok Hn. unfold ph_test. simpl.
  change (ph_diff' (ph_with_thr p t2) e n x) with (ph_diff' p e n x).
  change (ph_diff' (ph_with_thr p t1) e n x) with (ph_diff' p e n x).
  unfold ph_ok in Hok. apply orb_true_iff in Hok. destruct Hok as [Hok|Hok]; [apply Z.leb_le in Hok; lia|].
  cbv zeta in Hok. apply andb_true_iff in Hok as [Hok Fx]. apply andb_true_iff in Hok as [Hok Fs].
  apply andb_true_iff in Hok as [Fm Hsgn].
  set (m := ph_mean' e n x) in *. set (d := ph_diff' p e n x). intros H2.
  destruct (PrimFloat.leb 0 m) eqn:Em.
  - (* mean >= 0: t1*m <= t2*m < d *)
    destruct (PrimFloat.is_finite t2) eqn:Ft2.
    + apply (float_leb_ltb_trans _ (PrimFloat.mul t2 m)); [|exact H2]. apply mul_mono_fin; assumption.
    + exfalso. pose proof (mul_posinf_nonneg_not_below t2 m d Ft2 (float_ltb_leb_trans _ _ _ Hpos Ht) Em) as HH.
      change (PrimFloat.ltb (PrimFloat.mul t2 m) d = true) in H2. rewrite HH in H2. discriminate.
  - (* mean < 0: t1*m < 0 <= d, the product did not underflow *)
    simpl in Hsgn. apply (float_ltb_leb_trans _ 0%float); [exact Hsgn|].
    subst d. apply ph_diff_nonneg_f; assumption.
Qed.

Lemma ph_drift_mono_f (p : fparams_ph) (t1 t2 : float) e n x :
  PrimFloat.is_finite t1 = true -> PrimFloat.ltb 0 t1 = true -> PrimFloat.leb t1 t2 = true ->
  ph_ok p t1 e n x = true ->
  snd (ph_step (ph_with_thr p t2) e n x) = Some DDrift ->
  snd (ph_step (ph_with_thr p t1) e n x) = Some DDrift.
Proof.
  intros Ft1 Hpos Ht Hok. rewrite !ph_alarm_iff. simpl. intros [H1 H2]. split; [|exact H2].
  exact (ph_test_antitone_f p t1 t2 e n x Ft1 Hpos Ht Hok H2 H1).
Qed.

Lemma ph_drift_same_otherwise_f (p : fparams_ph) (t1 t2 : float) e n x :
  PrimFloat.is_finite t1 = true -> PrimFloat.ltb 0 t1 = true -> PrimFloat.leb t1 t2 = true ->
  ph_ok p t1 e n x = true ->
  snd (ph_step (ph_with_thr p t1) e n x) <> Some DDrift ->
  snd (ph_step (ph_with_thr p t2) e n x) = snd (ph_step (ph_with_thr p t1) e n x).
Proof.
  intros Ft1 Hpos Ht Hok Hnd. pose proof (ph_drift_mono_f p t1 t2 e n x Ft1 Hpos Ht Hok) as Hm.
  destruct (ph_step_spec (ph_with_thr p t1) e n x) as (_ & _ & _ & _ & E1).
  destruct (ph_step_spec (ph_with_thr p t2) e n x) as (_ & _ & _ & _ & E2).
  rewrite E1 in *. rewrite E2 in *.
  destruct (ph_test (ph_with_thr p t1) e n x && (ph_burn_in (ph_with_thr p t1) <? n)%Z); [congruence|].
  destruct (ph_test (ph_with_thr p t2) e n x && (ph_burn_in (ph_with_thr p t2) <? n)%Z); [|reflexivity].
  specialize (Hm eq_refl). discriminate.
Qed.

(** same running statistics (the recorded history rows differ: they store threshold * mean) *)
Definition ph_stats_eq_f (e1 e2 : fstate_ph) : Prop :=
  p_max e1 = p_max e2 /\ p_min e1 = p_min e2 /\ p_sum e1 = p_sum e2 /\ p_mean e1 = p_mean e2.

(** [ph_ok] reads the four running statistics only *)
Lemma ph_ok_local (p : fparams_ph) t1 e1 e2 n x : ph_stats_eq_f e1 e2 -> ph_ok p t1 e1 n x = ph_ok p t1 e2 n x.
Proof.
  intros (H1 & H2 & H3 & H4). unfold ph_ok, ph_max', ph_min', ph_sum', ph_mean'. rewrite H1, H2, H3, H4. reflexivity.
Qed.

Definition ph_run_ok_p (p : fparams_ph) (t1 : float) (xs : list float) : bool :=
  run_ok ph_e float (fun _ => ph_e0) PolNoRecs (ph_step (ph_with_thr p t1)) (ph_ok p t1)
         (init (PH (ph_with_thr p t1)) ph_e0) xs.

(** stable name for the harness: delta, looser threshold, burn_in, direction, inputs *)
Definition ph_run_ok (delta t1 : float) (burn : Z) (neg : bool) (xs : list float) : bool :=
  ph_run_ok_p (ph_p delta t1 burn neg) t1 xs.

Theorem ph_threshold_float : forall (p : fparams_ph) (t1 t2 : float) (xs : list float),
  PrimFloat.is_finite t1 = true -> PrimFloat.ltb 0 t1 = true -> PrimFloat.leb t1 t2 = true ->
  ph_run_ok_p p t1 xs = true ->
  opt_le (FD (PH (ph_with_thr p t1)) ph_e0 xs) (FD (PH (ph_with_thr p t2)) ph_e0 xs).
Proof.
  intros p t1 t2 xs Ft1 Hpos Ht Hok.
  apply (first_drift_monotone_ok ph_e float (fun _ => ph_e0) PolNoRecs
           (ph_step (ph_with_thr p t1)) (ph_step (ph_with_thr p t2)) (ph_ok p t1) ph_stats_eq_f).
  - intros e1 e2 n x (H1 & H2 & H3 & H4).
    destruct (ChangeDet_Proofs.ph_local (ph_with_thr p t2) e1 e2 n x H1 H2 H3 H4) as (_ & A & B & C & D).
    unfold ph_stats_eq_f. rewrite <- A, <- B, <- C, <- D. repeat split.
  - intros e1 e2 n x (H1 & H2 & H3 & H4) Hk Hnd.
    destruct (ChangeDet_Proofs.ph_local (ph_with_thr p t2) e1 e2 n x H1 H2 H3 H4) as (E & _). rewrite <- E.
    exact (ph_drift_same_otherwise_f p t1 t2 e1 n x Ft1 Hpos Ht Hk Hnd).
  - unfold srel, init, ph_stats_eq_f; simpl. repeat split.
  - simpl. discriminate.
  - exact Hok.
Qed.

Theorem ph_threshold_float_same : forall (p : fparams_ph) (t1 t2 : float) (xs : list float),
  PrimFloat.is_finite t1 = true -> PrimFloat.ltb 0 t1 = true -> PrimFloat.leb t1 t2 = true ->
  ph_run_ok_p p t1 xs = true ->
  forall k, FD (PH (ph_with_thr p t1)) ph_e0 (firstn k xs) = None ->
  trace (init (PH (ph_with_thr p t2)) ph_e0) (firstn k xs) =
  trace (init (PH (ph_with_thr p t1)) ph_e0) (firstn k xs).
Proof.
  intros p t1 t2 xs Ft1 Hpos Ht Hok k.
  apply (same_prefix_ok ph_e float (fun _ => ph_e0) PolNoRecs
           (ph_step (ph_with_thr p t1)) (ph_step (ph_with_thr p t2)) (ph_ok p t1) ph_stats_eq_f).
  - intros e1 e2 n x (H1 & H2 & H3 & H4).
    destruct (ChangeDet_Proofs.ph_local (ph_with_thr p t2) e1 e2 n x H1 H2 H3 H4) as (_ & A & B & C & D).
    unfold ph_stats_eq_f. rewrite <- A, <- B, <- C, <- D. repeat split.
  - intros e1 e2 n x (H1 & H2 & H3 & H4) Hk Hnd.
    destruct (ChangeDet_Proofs.ph_local (ph_with_thr p t2) e1 e2 n x H1 H2 H3 H4) as (E & _). rewrite <- E.
    exact (ph_drift_same_otherwise_f p t1 t2 e1 n x Ft1 Hpos Ht Hk Hnd).
  - unfold srel, init, ph_stats_eq_f; simpl. repeat split.
  - simpl. discriminate.
  - exact Hok.
Qed.
