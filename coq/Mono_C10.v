(** C17 for NN-DVI: a stricter (smaller) alpha never moves the first reported drift to an earlier
    batch.  Two runs of the NNDVI machine (Nnsp.v) on the same batches with the same adjacency
    oracles; only the threshold oracle differs, element-wise [theta_le].  The threshold is part of
    the INPUT of each update, so the two runs are the same kernel on two related input lists (the
    generic two-kernel theorem of Lifecycle_Mono.v does not apply as it stands; [first_drift] and
    [opt_le] are reused from there). *)
From MV Require Import Base Lifecycle Lifecycle_Proofs Lifecycle_Mono Nnsp Nnsp_Proofs.
From Coq Require Import QArith Lqa.
Open Scope Z_scope.

(** order of threshold oracles, [None] = NaN (the comparison [d_act > NaN] is false, so a NaN
    threshold behaves like +infinity).  A NaN threshold of the LOOSER run against a number in the
    stricter run is excluded: with the same permutation distances both runs fit the same (mu, sigma)
    and the threshold is NaN exactly when sigma is not positive, whatever alpha is
    ([theta_of_monotone] below). *)
Definition theta_le (t1 t2 : option Q) : Prop :=
  match t1, t2 with
  | Some a, Some b => (a <= b)%Q
  | _, None => True
  | None, Some _ => False
  end.

(** same test batch, same adjacency oracle, looser threshold on the left *)
Definition in_rel (x1 x2 : nndvi_in) : Prop :=
  in_test x1 = in_test x2 /\ in_adj x1 = in_adj x2 /\ theta_le (in_theta x1) (in_theta x2).

(** the full observable trace: state, counters and the reference batch after every update *)
Fixpoint rtrace (s : st NNDVI) (xs : list nndvi_in) : list (obs * list point) :=
  match xs with
  | [] => []
  | x :: t => let s' := update s x in (observe s', epoch s') :: rtrace s' t
  end.

Lemma theta_ltb_anti t1 t2 d : theta_le t1 t2 -> theta_ltb t2 d = true -> theta_ltb t1 d = true.
Proof.
  intros Hle H. apply theta_ltb_spec in H as (b & -> & Hb). apply theta_ltb_spec.
  destruct t1 as [a|]; simpl in Hle; [|contradiction].
  exists a. split; [reflexivity|]. lra.
Qed.

Lemma drifts_anti ref x1 x2 : in_rel x1 x2 -> nndvi_drifts ref x2 = true -> nndvi_drifts ref x1 = true.
Proof.
  intros (Ht & Ha & Hle). unfold nndvi_drifts. rewrite Ht, Ha. apply theta_ltb_anti. exact Hle.
Qed.

Lemma update_same (s : st NNDVI) x1 x2 : in_rel x1 x2 ->
  nndvi_drifts (epoch s) x1 = false -> update s x1 = update s x2.
Proof.
  intros Hr H1.
  assert (nndvi_drifts (epoch s) x2 = false) as H2.
  { destruct (nndvi_drifts (epoch s) x2) eqn:E; [|reflexivity].
    rewrite (drifts_anti _ _ _ Hr E) in H1. discriminate. }
  unfold nndvi_drifts in H1, H2. unfold update.
  destruct (is_drift (ds s)); cbn; unfold nndvi_step; rewrite H1, H2; reflexivity.
Qed.

Lemma nodrift_state (s : st NNDVI) x : nndvi_drifts (epoch s) x = false -> is_drift (ds (update s x)) = false.
Proof.
  intros H. destruct (nndvi_update s x) as (E & _). rewrite E, H.
  destruct (ds s); reflexivity.
Qed.

Lemma drift_state (s : st NNDVI) x : nndvi_drifts (epoch s) x = true -> is_drift (ds (update s x)) = true.
Proof. intros H. destruct (nndvi_update s x) as (E & _). rewrite E, H. reflexivity. Qed.

(** the stricter run never reports its first drift before the looser one - from ANY common state *)
Lemma nndvi_first_drift_monotone : forall xs1 xs2, Forall2 in_rel xs1 xs2 -> forall s : st NNDVI,
  opt_le (first_drift (trace s xs1)) (first_drift (trace s xs2)).
Proof.
  induction 1 as [|x1 x2 xs1 xs2 Hr _ IH]; intros s; [exact I|].
  cbn [trace first_drift]. rewrite !o_ds_observe.
  destruct (nndvi_drifts (epoch s) x1) eqn:B1.
  - rewrite (drift_state s x1 B1).
    destruct (is_drift (ds (update s x2))); [simpl; lia|].
    destruct (first_drift (trace (update s x2) xs2)); simpl; [lia|exact I].
  - rewrite <- (update_same s x1 x2 Hr B1). rewrite (nodrift_state s x1 B1).
    specialize (IH (update s x1)).
    destruct (first_drift (trace (update s x1) xs1)), (first_drift (trace (update s x1) xs2));
      simpl in *; try lia; exact IH.
Qed.

(** before the looser run's first drift the observable traces (drift state, counters, reference
    batch) coincide: they agree on the first k updates, k = index of that drift (all updates if
    the looser run never reports drift) *)
Definition agree_len (xs1 : list nndvi_in) (s : st NNDVI) : nat :=
  match first_drift (trace s xs1) with Some k => k | None => length xs1 end.

Lemma nndvi_same_until_first_drift : forall xs1 xs2, Forall2 in_rel xs1 xs2 -> forall s : st NNDVI,
  firstn (agree_len xs1 s) (rtrace s xs2) = firstn (agree_len xs1 s) (rtrace s xs1).
Proof.
  unfold agree_len. induction 1 as [|x1 x2 xs1 xs2 Hr _ IH]; intros s; [reflexivity|].
  cbn [trace first_drift rtrace]. rewrite o_ds_observe.
  destruct (nndvi_drifts (epoch s) x1) eqn:B1.
  - rewrite (drift_state s x1 B1). reflexivity.
  - rewrite (nodrift_state s x1 B1). rewrite <- (update_same s x1 x2 Hr B1).
    specialize (IH (update s x1)).
    destruct (first_drift (trace (update s x1) xs1)); cbn [firstn length]; f_equal; exact IH.
Qed.

(** ---------- the oracle side: the quantile level ---------- *)
(** threshold as the harness recomputes it: NaN unless sigma > 0, else mu + sigma * z(1 - alpha);
    [z] = quantile function of the standard normal (scipy's norm.ppf: an oracle; only its
    monotonicity is used, as an explicit hypothesis) *)
Definition theta_of (z : Q -> Q) (mu sigma alpha : Q) : option Q :=
  if Qle_bool sigma 0 then None else Some (mu + sigma * z (1 - alpha))%Q.

Lemma quantile_monotone (z : Q -> Q) : (forall p q, (p <= q)%Q -> (z p <= z q)%Q) ->
  forall mu sigma a1 a2, (0 <= sigma)%Q -> (a2 <= a1)%Q ->
  (mu + sigma * z (1 - a1) <= mu + sigma * z (1 - a2))%Q.
Proof.
  intros Hz mu sigma a1 a2 Hs Ha.
  assert (z (1 - a1) <= z (1 - a2))%Q as H by (apply Hz; lra).
  apply Qplus_le_r. rewrite !(Qmult_comm sigma). apply Qmult_le_compat_r; assumption.
Qed.

Lemma theta_of_monotone (z : Q -> Q) : (forall p q, (p <= q)%Q -> (z p <= z q)%Q) ->
  forall mu sigma a1 a2, (a2 <= a1)%Q -> theta_le (theta_of z mu sigma a1) (theta_of z mu sigma a2).
Proof.
  intros Hz mu sigma a1 a2 Ha. unfold theta_of.
  destruct (Qle_bool sigma 0) eqn:E; [exact I|]. simpl.
  apply quantile_monotone; [exact Hz| |exact Ha].
  destruct (Qlt_le_dec 0 sigma) as [H|H]; [apply Qlt_le_weak; exact H|].
  apply Qle_bool_iff in H. congruence.
Qed.
