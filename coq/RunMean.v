(** The running-mean recurrence m_n = m_(n-1) + (x_n - m_(n-1)) / n over the reals. *)
From Coq Require Import Reals Lra List ZArith Lia.
Import ListNotations.
Open Scope R_scope.

Fixpoint run_mean (m : R) (n : Z) (xs : list R) : R :=
  match xs with
  | [] => m
  | x :: t => run_mean (m + (x - m) / IZR (n + 1)) (n + 1) t
  end.

Definition sumR (l : list R) : R := fold_right Rplus 0 l.

Lemma run_mean_gen : forall xs m n, (0 <= n)%Z -> xs <> [] ->
  run_mean m n xs = (IZR n * m + sumR xs) / IZR (n + Z.of_nat (length xs)).
Proof.
  induction xs as [|x xs IH]; intros m n Hn Hne; [congruence|].
  cbn [run_mean].
  assert (Ha : 0 <= IZR n) by (apply IZR_le in Hn; exact Hn).
  destruct xs as [|y xs'].
  - cbn [run_mean sumR fold_right length]. replace (n + Z.of_nat 1)%Z with (n + 1)%Z by lia.
    rewrite plus_IZR. set (a := IZR n) in *. change (IZR 1) with 1. field. lra.
  - rewrite IH by (try lia; discriminate).
    replace (n + 1 + Z.of_nat (length (y :: xs')))%Z with (n + 1 + Z.of_nat (length (y :: xs')))%Z by reflexivity.
    replace (n + Z.of_nat (length (x :: y :: xs')))%Z with (n + 1 + Z.of_nat (length (y :: xs')))%Z by (cbn [length]; lia).
    assert (HL : 1 <= IZR (Z.of_nat (length (y :: xs')))) by (apply IZR_le; cbn [length]; lia).
    cbn [sumR fold_right]. rewrite !plus_IZR. set (a := IZR n) in *. set (L := IZR (Z.of_nat (length (y :: xs')))) in *.
    change (IZR 1) with 1. field. split; lra.
Qed.

(** started at the beginning of an epoch (n = 0) the recurrence yields the arithmetic mean,
    whatever the initial value *)
Theorem run_mean_exact m xs : xs <> [] -> run_mean m 0 xs = sumR xs / IZR (Z.of_nat (length xs)).
Proof.
  intros H. rewrite run_mean_gen by (try lia; assumption). simpl. f_equal. lra.
Qed.
