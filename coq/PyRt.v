(** Run-time vocabulary of the Gallina that tools/py2coq_election.py generates from election.py:
    Python ints are [Z], a detector is its [drift_state], lists are [list]. *)
From MV Require Import Base.

Definition py_len {A} (l : list A) : Z := Z.of_nat (length l).
Definition py_nth (l : list Z) (i : Z) : Z := nth (Z.to_nat i) l 0.
Fixpoint py_upd (l : list Z) (i : nat) (v : Z) : list Z :=
  match l, i with
  | [], _ => []
  | _ :: t, O => v :: t
  | x :: t, S j => x :: py_upd t j v
  end.
Definition py_set (l : list Z) (i : Z) (v : Z) : list Z := py_upd l (Z.to_nat i) v.
Definition py_repeat (v : Z) (n : Z) : list Z := repeat v (Z.to_nat n).
Definition py_oget (o : option (list Z)) : list Z := match o with Some l => l | None => [] end.
Definition py_is_none (o : option (list Z)) : bool := match o with Some _ => false | None => true end.

Section Loops.
Context {A S R : Type}.
(** [for x in l: body] with early return: the first [Some] stops the loop *)
Fixpoint py_for (body : A -> S -> option R * S) (l : list A) (s : S) : option R * S :=
  match l with
  | [] => (None, s)
  | x :: t => let '(r, s') := body x s in
              match r with Some v => (Some v, s') | None => py_for body t s' end
  end.
(** [for i, x in enumerate(l): body] *)
Fixpoint py_for_i (body : Z -> A -> S -> option R * S) (i : Z) (l : list A) (s : S) : option R * S :=
  match l with
  | [] => (None, s)
  | x :: t => let '(r, s') := body i x s in
              match r with Some v => (Some v, s') | None => py_for_i body (i + 1) t s' end
  end.
End Loops.
