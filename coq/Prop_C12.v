(** C12 — an ensemble is its election applied to members that run exactly as if alone.
    Statements only (proofs: Ensemble_Proofs.v).  Every theorem is structural: it holds for every
    member state type [M] and every member behaviour ([mupd], [msetref], [mreset], [mds], [mrecs] are
    arbitrary functions; members of different kinds share [M], see C12_heterogeneous_members), for
    every number of members, every selector (arbitrary functions [X -> X], or none), every election
    [elect] (arbitrary function of its own state and of the member drift states), and every history of
    update / reset / set_reference calls.  A StreamingEnsemble is the same machine on histories
    without set_reference ([streaming_run]). *)
From MV Require Import Base Election Election_Proofs Ensemble Ensemble_Proofs.

Section C12.
Variables (K X Y M R ES : Type).
Variable mupd : M -> X -> Y -> Y -> M.
Variable msetref : M -> X -> Y -> Y -> M.
Variable mreset : M -> M.
Variable mds : M -> dstate.
Variable mrecs : M -> option R.
Variable elect : ES -> list dstate -> dstate * ES.

Notation ens := (ens K X M ES).
Notation run := (run K X Y M ES mupd msetref mreset mds elect).
Notation streaming_run := (streaming_run K X Y M ES mupd msetref mreset mds elect).
Notation ens_update := (ens_update K X Y M ES mupd mds elect).
Notation ens_reset := (ens_reset K X M ES mreset).
Notation ens_set_reference := (ens_set_reference K X Y M ES msetref).
Notation mrun := (mrun X Y M mupd msetref mreset).
Notation solo := (solo K X Y M mupd msetref mreset).
Notation solo_vector := (solo_vector K X Y M mupd msetref mreset mds).
Notation states := (states K X M mds).
Notation drift_states := (drift_states K X M ES mds).
Notation retraining_recs := (retraining_recs K X M R ES mrecs).
Notation states_after := (states_after K X Y M ES mupd msetref mreset mds elect).
Notation spec_verdicts := (spec_verdicts K X Y M ES mupd msetref mreset mds elect).

(** member_alone: after any history, the i-th member is in the state it reaches when it is run
    alone on the same calls with [select sel_i x] in place of [x] and the same labels; its key, its
    selector and its position do not change. *)
Theorem C12_member_alone : forall (e : ens) ops i m,
  nth_error (members e) i = Some m ->
  nth_error (members (run e ops)) i
  = Some (mk_member (key m) (mrun (mst m) (map (project (sel m)) ops)) (sel m)).
Proof. intros e ops. exact (member_alone_nth K X Y M ES mupd msetref mreset mds elect ops e). Qed.

(** ... for all members at once (so the number and order of members is that of construction) *)
Theorem C12_members_alone : forall (e : ens) ops,
  members (run e ops)
  = map (fun m => mk_member (key m) (mrun (mst m) (map (project (sel m)) ops)) (sel m)) (members e).
Proof. intros e ops. exact (members_run K X Y M ES mupd msetref mreset mds elect ops e). Qed.

(** ... in a StreamingEnsemble too, where no member ever receives set_reference *)
Theorem C12_member_alone_streaming : forall (e : ens) (ops : list (sop X Y)) i m,
  nth_error (members e) i = Some m ->
  nth_error (members (streaming_run e ops)) i
  = Some (mk_member (key m) (mrun (mst m) (map (project (sel m)) (map embed ops))) (sel m)) /\
  Forall (fun o => match o with MSetRef _ _ _ => False | _ => True end)
         (map (project (sel m)) (map embed ops)).
Proof.
  intros e ops i m H. split.
  - exact (member_alone_nth K X Y M ES mupd msetref mreset mds elect (map embed ops) e i m H).
  - exact (streaming_no_setref X Y (sel m) ops).
Qed.

(** selectors do not leak: two histories that look the same through a member's selector leave that
    member in the same state, whatever the other columns, the other members and the election did *)
Theorem C12_selector_no_leak : forall (e : ens) ops ops' i m,
  nth_error (members e) i = Some m ->
  map (project (sel m)) ops = map (project (sel m)) ops' ->
  option_map mst (nth_error (members (run e ops)) i) = option_map mst (nth_error (members (run e ops')) i).
Proof.
  intros e ops ops' i m H Hp.
  rewrite (member_alone_nth K X Y M ES mupd msetref mreset mds elect ops e i m H).
  rewrite (member_alone_nth K X Y M ES mupd msetref mreset mds elect ops' e i m H).
  simpl. f_equal. exact (solo_depends_on_projection K X Y M mupd msetref mreset m ops ops' Hp).
Qed.

(** views_exact: drift_states lists every member's key with the drift_state of its solo twin, in
    insertion order; retraining_recs lists, in the same order, exactly the members that expose
    recommendations, with their solo twin's value *)
Theorem C12_views_exact : forall (e : ens) ops,
  drift_states (run e ops) = map (fun m => (key m, mds (solo m ops))) (members e) /\
  retraining_recs (run e ops)
  = flat_map (fun m => match mrecs (solo m ops) with Some r => [(key m, r)] | None => [] end) (members e).
Proof.
  intros e ops. split.
  - exact (drift_states_run K X Y M ES mupd msetref mreset mds elect ops e).
  - exact (retraining_recs_run K X Y M R ES mupd msetref mreset mds mrecs elect ops e).
Qed.

Theorem C12_recs_membership : forall (e : ens) k r,
  In (k, r) (retraining_recs e) <-> exists m, In m (members e) /\ key m = k /\ mrecs (mst m) = Some r.
Proof. intros e k r. exact (recs_view_in K X M R mrecs (members e) k r). Qed.

(** one update, in the order of the code: every member is updated on its selected columns, then the
    election is evaluated on the updated members in insertion order, then both counters move *)
Theorem C12_update_order : forall (e : ens) x yt yp,
  let ms := map (fun m => mk_member (key m) (mupd (mst m) (select (sel m) x) yt yp) (sel m)) (members e) in
  members (ens_update e x yt yp) = ms /\
  eds (ens_update e x yt yp) = fst (elect (est e) (states ms)) /\
  est (ens_update e x yt yp) = snd (elect (est e) (states ms)) /\
  etotal (ens_update e x yt yp) = etotal e + 1 /\
  esince (ens_update e x yt yp) = esince e + 1.
Proof. exact (update_spec K X Y M ES mupd msetref mreset mds elect). Qed.

(** ensemble drift_state = election of the solo twins: after the update that ends any history the
    ensemble reports what its election returns on the drift states of the members run alone *)
Theorem C12_state_is_election_of_solo_members : forall (e : ens) ops x yt yp,
  let ops' := ops ++ [OUpdate x yt yp] in
  eds (run e ops') = fst (elect (est (run e ops)) (solo_vector (members e) ops')) /\
  est (run e ops') = snd (elect (est (run e ops)) (solo_vector (members e) ops')) /\
  states (members (run e ops')) = solo_vector (members e) ops'.
Proof. exact (state_after_update K X Y M ES mupd msetref mreset mds elect). Qed.

(** ... and the whole sequence of ensemble verdicts (and election states) along a history is the one
    computed by [spec_verdicts], which never looks at the ensemble: election on the solo twins at
    updates, None after reset, unchanged by set_reference; the election's own state moves at updates only *)
Theorem C12_verdict_trace : forall (e : ens) ops,
  map (fun e' => (eds e', est e')) (states_after e ops)
  = spec_verdicts (members e) (est e) (eds e) [] ops.
Proof. intros e ops. exact (verdicts_spec K X Y M ES mupd msetref mreset mds elect ops e). Qed.

(** reset reaches every member, clears the ensemble's state and since-reset counter, keeps the total
    and does not touch the election object *)
Theorem C12_reset_reaches_all : forall (e : ens),
  members (ens_reset e) = map (fun m => mk_member (key m) (mreset (mst m)) (sel m)) (members e) /\
  eds (ens_reset e) = DNone /\ esince (ens_reset e) = 0 /\
  etotal (ens_reset e) = etotal e /\ est (ens_reset e) = est e.
Proof. exact (reset_spec K X M ES mreset). Qed.

(** set_reference reaches every member with its selected columns and changes nothing else *)
Theorem C12_set_reference_reaches_all : forall (e : ens) x yt yp,
  members (ens_set_reference e x yt yp)
    = map (fun m => mk_member (key m) (msetref (mst m) (select (sel m) x) yt yp) (sel m)) (members e) /\
  eds (ens_set_reference e x yt yp) = eds e /\ esince (ens_set_reference e x yt yp) = esince e /\
  etotal (ens_set_reference e x yt yp) = etotal e /\ est (ens_set_reference e x yt yp) = est e.
Proof. exact (set_reference_spec K X Y M ES msetref). Qed.

(** counters: the total counts the updates of the whole history; the since-reset counter counts the
    updates after the last explicit reset (it is not restarted by a drift verdict) *)
Theorem C12_total_counts_updates : forall (e : ens) ops,
  etotal (run e ops) = etotal e + n_updates ops.
Proof. intros e ops. exact (etotal_run K X Y M ES mupd msetref mreset mds elect ops e). Qed.

Theorem C12_since_counts_updates_after_last_reset : forall (e : ens) before after,
  forallb (fun o => negb (is_reset o)) after = true ->
  esince (run e (before ++ OReset :: after)) = n_updates after /\
  esince (run e after) = esince e + n_updates after.
Proof.
  intros e before after H. split.
  - exact (esince_run_after_reset K X Y M ES mupd msetref mreset mds elect e before after H).
  - exact (esince_run_noreset K X Y M ES mupd msetref mreset mds elect after e H).
Qed.
End C12.

(** the shipped elections ([elect_of], Election.v) combined with their C13 rules *)
Section C12_elections.
Variables (K X Y M : Type).
Variable mupd : M -> X -> Y -> Y -> M.
Variable msetref : M -> X -> Y -> Y -> M.
Variable mreset : M -> M.
Variable mds : M -> dstate.
Notation ens := (ens K X M estate).
Notation run k := (run K X Y M estate mupd msetref mreset mds (elect_of k)).
Notation solo_vector := (solo_vector K X Y M mupd msetref mreset mds).

Theorem C12_majority_ensemble : forall (e : ens) ops x yt yp,
  let ops' := ops ++ [OUpdate x yt yp] in
  eds (run EMajority e ops') = DDrift
  <-> Z.of_nat (length (members e)) < 2 * cnt_drift (solo_vector (members e) ops').
Proof. exact (majority_ensemble K X Y M mupd msetref mreset mds). Qed.

Theorem C12_min_approval_ensemble : forall (e : ens) a ops x yt yp, 1 <= a ->
  let ops' := ops ++ [OUpdate x yt yp] in
  eds (run (EMinApproval a) e ops') = DDrift <-> a <= cnt_drift (solo_vector (members e) ops').
Proof. exact (min_approval_ensemble K X Y M mupd msetref mreset mds). Qed.

Theorem C12_ordered_ensemble : forall (e : ens) a c ops x yt yp, 0 <= a -> 0 <= c -> 1 <= a + c ->
  let ops' := ops ++ [OUpdate x yt yp] in
  eds (run (EOrdered a c) e ops') = DDrift <-> a + c <= cnt_drift (solo_vector (members e) ops').
Proof. exact (ordered_ensemble K X Y M mupd msetref mreset mds). Qed.

Theorem C12_confirmed_ensemble : forall (e : ens) p ops x yt yp,
  let ops' := ops ++ [OUpdate x yt yp] in
  (eds (run (EConfirmed p) e ops'), est (run (EConfirmed p) e ops'))
  = confirmed_call p (est (run (EConfirmed p) e ops)) (solo_vector (members e) ops').
Proof. exact (confirmed_ensemble K X Y M mupd msetref mreset mds). Qed.
End C12_elections.

(** members of different kinds: an ensemble over packed machines; a packed member run alone is its
    own machine run alone, so C12_member_alone gives each kind its own solo run *)
Theorem C12_heterogeneous_members : forall (X Y R : Type) (mc : machine X Y R) (s : m_state mc) ops,
  mrun X Y (packed X Y R) p_upd p_setref p_reset (pack mc s) ops
  = pack mc (mrun X Y (m_state mc) (m_upd mc) (m_setref mc) (m_reset mc) s ops).
Proof. exact packed_run_alone. Qed.

(** hypotheses are satisfiable / the statements are not vacuous: a two-kind ensemble (a counter that
    drifts at its 2nd sample and a machine that never drifts), identity and constant selectors,
    MinimumApproval(1), a history with a reset *)
Definition ex_counter : machine Z unit recsT :=
  mk_machine Z unit recsT Z (fun s x _ _ => s + x) (fun s _ _ _ => s) (fun _ => 0)
             (fun s => if 2 <=? s then DDrift else DNone) (fun _ => Some recs_none).
Definition ex_quiet : machine Z unit recsT :=
  mk_machine Z unit recsT unit (fun s _ _ _ => s) (fun s _ _ _ => s) (fun s => s)
             (fun _ => DNone) (fun _ => None).
Definition ex_ens : ens Z Z (packed Z unit recsT) estate :=
  ens_init [mk_member 7 (pack ex_counter 0) None; mk_member 8 (pack ex_quiet tt) (Some (fun _ => 0))] None.
Definition ex_run := run Z Z unit (packed Z unit recsT) estate p_upd p_setref p_reset p_ds
                         (elect_of (EMinApproval 1)).

Example C12_example :
  let e := ex_run ex_ens [OUpdate 1 tt tt; OUpdate 1 tt tt; OReset; OUpdate 1 tt tt] in
  map eds (states_after Z Z unit (packed Z unit recsT) estate p_upd p_setref p_reset p_ds
             (elect_of (EMinApproval 1)) ex_ens [OUpdate 1 tt tt; OUpdate 1 tt tt; OReset; OUpdate 1 tt tt])
  = [DNone; DDrift; DNone; DNone] /\
  etotal e = 3 /\ esince e = 1 /\
  drift_states Z Z (packed Z unit recsT) estate p_ds e = [(7, DNone); (8, DNone)] /\
  retraining_recs Z Z (packed Z unit recsT) recsT estate p_recs e = [(7, recs_none)].
Proof. vm_compute. repeat split; reflexivity. Qed.

Print Assumptions C12_member_alone.
Print Assumptions C12_members_alone.
Print Assumptions C12_member_alone_streaming.
Print Assumptions C12_selector_no_leak.
Print Assumptions C12_views_exact.
Print Assumptions C12_recs_membership.
Print Assumptions C12_update_order.
Print Assumptions C12_state_is_election_of_solo_members.
Print Assumptions C12_verdict_trace.
Print Assumptions C12_reset_reaches_all.
Print Assumptions C12_set_reference_reaches_all.
Print Assumptions C12_total_counts_updates.
Print Assumptions C12_since_counts_updates_after_last_reset.
Print Assumptions C12_majority_ensemble.
Print Assumptions C12_min_approval_ensemble.
Print Assumptions C12_ordered_ensemble.
Print Assumptions C12_confirmed_ensemble.
Print Assumptions C12_heterogeneous_members.
