#!/bin/bash
# Re-checks every compiled file of the development with Coq's independent checker and records the
# axioms the whole development (and the libraries it loads) relies on. Takes minutes and several GB.
cd /verif/coq || exit 2
mods=$(grep '\.v$' _CoqProject | sed 's/\.v$//' | sed 's/^/MV./')
( time timeout 7200 coqchk -silent -o -Q . MV $mods ) > /verif/notes/coqchk.txt 2>&1
echo "exit=$?" >> /verif/notes/coqchk.txt
tail -40 /verif/notes/coqchk.txt
