#!/bin/bash
# Re-checks every compiled file of the development with Coq's independent checker and records the
# axioms the whole development (and the libraries it loads) relies on. Takes minutes and several GB.
cd /verif/coq || exit 2
mods=$(grep '\.v$' _CoqProject | sed 's/\.v$//' | sed 's/^/MV./')
( time timeout 7200 coqchk -silent -o -Q . MV $mods ) > /verif/notes/coqchk.txt 2>&1
echo "exit=$?" >> /verif/notes/coqchk.txt
# the translated models and their equivalence proofs (compiled here against the committed snapshots)
cd /verif/coqgen || exit 2
for f in $(grep '\.v$' _CoqProject); do timeout 900 coqc -Q ../coq MV -Q . MVG $f > /dev/null 2>&1 || echo "coqgen: $f does not compile" >> /verif/notes/coqchk.txt; done
gmods=$(grep '\.v$' _CoqProject | sed 's/\.v$//' | sed 's/^/MVG./')
( time timeout 7200 coqchk -silent -o -Q ../coq MV -Q . MVG $gmods ) > /verif/notes/coqchk_gen.txt 2>&1
echo "exit=$?" >> /verif/notes/coqchk_gen.txt
rm -f *.vo *.vok *.vos *.glob .*.aux
tail -12 /verif/notes/coqchk.txt; tail -8 /verif/notes/coqchk_gen.txt
