#!/venv/bin/python
"""Fail-closed translator: menelaus/ensemble/election.py  ->  Gallina (coq/Election_Gen.v).

Every class of election.py with an `__init__` that only stores its parameters (or None) and a `__call__(self, detectors)`
made of the statement forms below becomes one Coq function

    <Class>_call (<one Z per constructor parameter>) (<one value per attribute that __call__ assigns>) (detectors : list dstate)
        : dstate * <tuple of the assigned attributes>

A detector is abstracted to its `drift_state` ("drift" / "warning" / None = DDrift / DWarn / DNone), a Python int is a Z.
Supported: assignments to locals and to `self.<attr>` / `self.<attr>[i]` (also `+=`), `if / elif / else`, `for x in <list>`,
`for i, x in enumerate(<list>)`, `return <state>`, integer arithmetic (+ - * //), comparisons, `and` / `or` / `not`,
`len`, `[x for x in <list> if <cond>]`, `[d.drift_state for d in <list>]`, `[0] * n`, `<attr> is None`.
Anything else raises Unsupported: the caller then falls back on the correspondence check alone (the translation is an
additional tie, never the only one).  The shape of the output is canonical: every block is an expression of type
`option dstate * ST` (early return value, state tuple), loops are `py_for` / `py_for_i` of coq/PyRt.v.

usage: py2coq_election.py <election.py> <out.v>      exit 0 = written, 3 = unsupported construct (message on stderr)
"""
import ast, sys


class Unsupported(Exception):
    pass


STATE = {"drift": "DDrift", "warning": "DWarn", None: "DNone"}


def fail(node, why):
    raise Unsupported(f"line {getattr(node, 'lineno', '?')}: {why}: {ast.dump(node)[:160]}")


class Fn:
    """translation of one __call__"""

    def __init__(self, cname, init, call):
        self.cname, self.call = cname, call
        self.fields, self.attrs = [], {}          # immutable ctor parameters; attrs assigned in __call__ -> type
        self.locals = {}                          # local variable -> type
        self.loopvars = {}                        # name -> type, while translating a loop body
        self.parse_init(init)
        self.det = [a.arg for a in call.args.args][1:]
        if len(self.det) != 1:
            fail(call, "__call__ must take exactly (self, detectors)")
        self.det = self.det[0]
        self.collect(call.body)
        # canonical order of the state tuple: locals assigned inside compound statements (loops, ifs) first, in the order
        # in which those bodies first assign them; then the locals only assigned in straight-line code; then attributes.
        # The order of the initialisations at the top of a method therefore does not reach the generated term.
        inner = []
        def walk(stmts, inside):
            for st in stmts:
                if isinstance(st, (ast.Assign, ast.AugAssign)) and inside:
                    t = st.targets[0] if isinstance(st, ast.Assign) else st.target
                    if isinstance(t, ast.Name) and t.id not in inner:
                        inner.append(t.id)
                elif isinstance(st, ast.If):
                    walk(st.body, True); walk(st.orelse, True)
                elif isinstance(st, ast.For):
                    walk(st.body, True)
        walk(call.body, False)
        locs = [v for v in inner if v in self.locals] + [v for v in self.locals if v not in inner]
        self.order = [("l", v) for v in locs] + [("a", v) for v in self.attrs if self.attr_assigned[v]]

    # ---------------------------------------------------------------- __init__
    def parse_init(self, init):
        self.attr_assigned = {}
        if init is None:
            return
        params = [a.arg for a in init.args.args][1:]
        for st in init.body:
            if isinstance(st, ast.Expr) and isinstance(st.value, ast.Constant) and isinstance(st.value.value, str):
                continue     # docstring
            if not (isinstance(st, ast.Assign) and len(st.targets) == 1 and self.is_self_attr(st.targets[0])):
                fail(st, "__init__ may only store attributes")
            name = st.targets[0].attr
            if isinstance(st.value, ast.Name) and st.value.id in params:
                self.fields.append(name)
            elif isinstance(st.value, ast.Constant) and st.value.value is None:
                self.attrs[name] = "optlistZ"
                self.attr_assigned[name] = False
            else:
                fail(st, "__init__ may only store a parameter or None")

    @staticmethod
    def is_self_attr(n):
        return isinstance(n, ast.Attribute) and isinstance(n.value, ast.Name) and n.value.id == "self"

    # ---------------------------------------------------------------- variables and their types
    def collect(self, body):
        for st in body:
            if isinstance(st, (ast.Assign, ast.AugAssign)):
                tgt = st.targets[0] if isinstance(st, ast.Assign) else st.target
                if isinstance(st, ast.Assign) and len(st.targets) != 1:
                    fail(st, "multiple assignment targets")
                if isinstance(tgt, ast.Name):
                    t = self.typeof(st.value) if isinstance(st, ast.Assign) else "Z"
                    if self.locals.setdefault(tgt.id, t) != t:
                        fail(st, f"variable {tgt.id} changes type")
                elif self.is_self_attr(tgt):
                    if tgt.attr not in self.attrs:
                        fail(st, "assignment to an attribute that __init__ did not initialise to None")
                    self.attr_assigned[tgt.attr] = True
                elif isinstance(tgt, ast.Subscript) and self.is_self_attr(tgt.value):
                    if tgt.value.attr not in self.attrs:
                        fail(st, "item assignment to an unknown attribute")
                    self.attr_assigned[tgt.value.attr] = True
                else:
                    fail(st, "unsupported assignment target")
            elif isinstance(st, ast.If):
                self.collect(st.body); self.collect(st.orelse)
            elif isinstance(st, ast.For):
                if st.orelse:
                    fail(st, "for ... else")
                self.collect(st.body)
            elif isinstance(st, (ast.Return, ast.Expr)):
                pass
            else:
                fail(st, "unsupported statement")

    def typeof(self, e):
        if isinstance(e, ast.Constant):
            if isinstance(e.value, bool):
                fail(e, "boolean constant")
            if isinstance(e.value, int):
                return "Z"
            if e.value in STATE:
                return "dstate"
            fail(e, "constant")
        if isinstance(e, ast.ListComp):
            return "listD"
        if isinstance(e, ast.BinOp) and isinstance(e.left, ast.List):
            return "listZ"
        if isinstance(e, (ast.BinOp, ast.Call, ast.Subscript)):
            return "Z"
        if isinstance(e, ast.Name):
            if e.id == getattr(self, "det", None):
                return "listD"
            return self.locals.get(e.id) or self.loopvars.get(e.id) or fail(e, "type of unknown name")
        if self.is_self_attr(e):
            return "Z" if e.attr in self.fields else self.attrs.get(e.attr) or fail(e, "unknown attribute")
        if isinstance(e, ast.Attribute) and e.attr == "drift_state" and isinstance(e.value, ast.Name) \
                and self.loopvars.get(e.value.id) == "dstate":
            return "dstate"
        fail(e, "cannot type expression")

    DEFAULT = {"Z": "0", "listD": "(@nil dstate)", "listZ": "(@nil Z)", "dstate": "DNone", "optlistZ": "(@None (list Z))"}
    COQTY = {"Z": "Z", "listD": "list dstate", "listZ": "list Z", "dstate": "dstate", "optlistZ": "option (list Z)"}

    def vname(self, kind, v):
        return v if kind == "l" else "self_" + v

    def st_tuple(self):
        t = "tt"
        for kind, v in reversed(self.order):
            t = f"({self.vname(kind, v)}, {t})"
        return t

    # ---------------------------------------------------------------- expressions
    def ex(self, e):
        if isinstance(e, ast.Constant):
            if isinstance(e.value, bool):
                fail(e, "boolean constant")
            if isinstance(e.value, int):
                return f"({e.value})" if e.value < 0 else str(e.value)
            if e.value in STATE:
                return STATE[e.value]
            fail(e, "constant")
        if isinstance(e, ast.Name):
            if e.id == self.det:
                return e.id
            if e.id in self.locals or e.id in self.loopvars:
                return e.id
            fail(e, "unknown name")
        if isinstance(e, ast.Attribute):
            if self.is_self_attr(e):
                if e.attr in self.fields:
                    return "self_" + e.attr
                if e.attr in self.attrs:
                    return f"(py_oget self_{e.attr})"
                fail(e, "unknown attribute")
            if e.attr == "drift_state" and isinstance(e.value, ast.Name) and self.loopvars.get(e.value.id) == "dstate":
                return e.value.id          # a detector is its drift_state
            fail(e, "attribute access")
        if isinstance(e, ast.BinOp):
            if isinstance(e.op, ast.Mult) and isinstance(e.left, ast.List):
                if len(e.left.elts) != 1:
                    fail(e, "list repetition of a non-singleton")
                return f"(py_repeat {self.ex(e.left.elts[0])} {self.ex(e.right)})"
            ops = {ast.Add: "+", ast.Sub: "-", ast.Mult: "*", ast.FloorDiv: "/"}      # Z./ is floor division, like //
            if type(e.op) not in ops:
                fail(e, "operator")
            return f"({self.ex(e.left)} {ops[type(e.op)]} {self.ex(e.right)})"
        if isinstance(e, ast.Call):
            if isinstance(e.func, ast.Name) and e.func.id == "len" and len(e.args) == 1 and not e.keywords:
                return f"(py_len {self.ex(e.args[0])})"
            fail(e, "call")
        if isinstance(e, ast.Subscript):
            return f"(py_nth {self.ex(e.value)} {self.ex(e.slice)})"
        if isinstance(e, ast.ListComp):
            if len(e.generators) != 1 or e.generators[0].is_async or not isinstance(e.generators[0].target, ast.Name):
                fail(e, "comprehension shape")
            g = e.generators[0]
            src = self.ex(g.iter)
            if self.typeof(g.iter) != "listD" and not (isinstance(g.iter, ast.Name) and g.iter.id == self.det):
                fail(e, "comprehension over something that is not a list of detectors")
            x = g.target.id
            self.loopvars[x] = "dstate"
            try:
                for c in g.ifs:
                    src = f"(filter (fun {x} => {self.cond(c)}) {src})"
                elt = self.ex(e.elt)
            finally:
                del self.loopvars[x]
            if elt != x:
                fail(e, "comprehension element")
            return src
        fail(e, "expression")

    def cond(self, e):
        if isinstance(e, ast.BoolOp):
            op = " && " if isinstance(e.op, ast.And) else " || "
            return "(" + op.join(self.cond(v) for v in e.values) + ")"
        if isinstance(e, ast.UnaryOp) and isinstance(e.op, ast.Not):
            # `not (a < b)` between ints is `a >= b`: printed as the comparison itself (exact on integers), so that the
            # spelling of a test does not reach the generated term
            c = e.operand
            flip = {ast.Lt: ast.GtE, ast.LtE: ast.Gt, ast.Gt: ast.LtE, ast.GtE: ast.Lt, ast.Eq: ast.NotEq, ast.NotEq: ast.Eq}
            if isinstance(c, ast.Compare) and len(c.ops) == 1 and type(c.ops[0]) in flip:
                try:
                    ints = self.typeof(c.left) == "Z" and self.typeof(c.comparators[0]) == "Z"
                except Unsupported:
                    ints = False
                if ints:
                    return self.cond(ast.Compare(left=c.left, ops=[flip[type(c.ops[0])]()], comparators=c.comparators))
            return f"(negb {self.cond(e.operand)})"
        if isinstance(e, ast.Compare) and len(e.ops) == 1:
            a, b, op = e.left, e.comparators[0], e.ops[0]
            if isinstance(op, (ast.Is, ast.IsNot)) and isinstance(b, ast.Constant) and b.value is None \
                    and self.is_self_attr(a) and a.attr in self.attrs:
                t = f"(py_is_none self_{a.attr})"
                return t if isinstance(op, ast.Is) else f"(negb {t})"
            if isinstance(b, ast.Constant) and (isinstance(b.value, str) or b.value is None) and b.value in STATE \
                    and isinstance(op, (ast.Eq, ast.NotEq)) and self.typeof(a) == "dstate":
                t = f"(dstate_eqb {self.ex(a)} {STATE[b.value]})"
                return t if isinstance(op, ast.Eq) else f"(negb {t})"
            x, y = self.ex(a), self.ex(b)
            if self.typeof(a) != "Z" or self.typeof(b) != "Z":
                fail(e, "comparison of non-integers")
            return {ast.Eq: f"({x} =? {y})", ast.NotEq: f"(negb ({x} =? {y}))", ast.Lt: f"({x} <? {y})", ast.LtE: f"({x} <=? {y})",
                    ast.Gt: f"({y} <? {x})", ast.GtE: f"({y} <=? {x})"}.get(type(op)) or fail(e, "comparison operator")
        fail(e, "condition")

    # ---------------------------------------------------------------- statements
    def block(self, stmts, ind):
        """expression of type option dstate * ST for the statement list (falls through with None)"""
        pad = "  " * ind
        ST = self.st_tuple()
        if not stmts:
            return f"{pad}(None, {ST})"
        st, rest = stmts[0], stmts[1:]
        if isinstance(st, ast.Expr) and isinstance(st.value, ast.Constant) and isinstance(st.value.value, str):
            return self.block(rest, ind)
        if isinstance(st, ast.Return):
            v = "DNone" if st.value is None else self.ex(st.value)
            if st.value is not None and self.typeof(st.value) != "dstate":
                fail(st, "return of something that is not a drift state")
            return f"{pad}(Some {v}, {ST})"
        if isinstance(st, (ast.Assign, ast.AugAssign)):
            tgt = st.targets[0] if isinstance(st, ast.Assign) else st.target
            aug = isinstance(st, ast.AugAssign)
            if aug and not isinstance(st.op, (ast.Add, ast.Sub)):
                fail(st, "augmented operator")
            sign = "-" if aug and isinstance(st.op, ast.Sub) else "+"
            val = self.ex(st.value)
            if isinstance(tgt, ast.Name):
                if aug:
                    val = f"({tgt.id} {sign} {val})"
                return f"{pad}let {tgt.id} := {val} in\n" + self.block(rest, ind)
            if self.is_self_attr(tgt):
                if aug or self.typeof(st.value) != "listZ":
                    fail(st, "attribute assignment of something that is not a list of ints")
                return f"{pad}let self_{tgt.attr} := Some {val} in\n" + self.block(rest, ind)
            a = tgt.value.attr
            i = self.ex(tgt.slice)
            if aug:
                val = f"(py_nth (py_oget self_{a}) {i} {sign} {val})"
            return f"{pad}let self_{a} := Some (py_set (py_oget self_{a}) {i} {val}) in\n" + self.block(rest, ind)
        if isinstance(st, ast.If):
            s = (f"{pad}let '(r__, {ST}) :=\n{pad}  (if {self.cond(st.test)}\n{pad}   then\n{self.block(st.body, ind + 2)}\n"
                 f"{pad}   else\n{self.block(st.orelse, ind + 2)}) in\n")
            return s + f"{pad}match r__ with Some v__ => (Some v__, {ST}) | None =>\n{self.block(rest, ind)}\n{pad}end"
        if isinstance(st, ast.For):
            it, tgt = st.iter, st.target
            self.check_loop(st)
            if isinstance(it, ast.Call) and isinstance(it.func, ast.Name) and it.func.id == "enumerate" and len(it.args) == 1:
                if not (isinstance(tgt, ast.Tuple) and len(tgt.elts) == 2 and all(isinstance(x, ast.Name) for x in tgt.elts)):
                    fail(st, "enumerate target")
                i, x = tgt.elts[0].id, tgt.elts[1].id
                src, ety = self.ex(it.args[0]), {"listD": "dstate", "listZ": "Z", "optlistZ": "Z"}.get(self.typeof(it.args[0]))
                if ety is None and isinstance(it.args[0], ast.Name) and it.args[0].id == self.det:
                    ety = "dstate"
                if ety is None:
                    fail(st, "enumerate over something that is not a list")
                self.loopvars[i], self.loopvars[x] = "Z", ety
                try:
                    body = self.block(st.body, ind + 2)
                finally:
                    del self.loopvars[i], self.loopvars[x]
                s = f"{pad}let '(r__, {ST}) :=\n{pad}  py_for_i (fun {i} {x} '{ST} =>\n{body}) 0 {src} {ST} in\n"
            else:
                if not isinstance(tgt, ast.Name):
                    fail(st, "loop target")
                src = self.ex(it)
                ety = "dstate" if (isinstance(it, ast.Name) and it.id == self.det) else \
                    {"listD": "dstate", "listZ": "Z", "optlistZ": "Z"}.get(self.typeof(it)) or fail(st, "loop over a non-list")
                self.loopvars[tgt.id] = ety
                try:
                    body = self.block(st.body, ind + 2)
                finally:
                    del self.loopvars[tgt.id]
                s = f"{pad}let '(r__, {ST}) :=\n{pad}  py_for (fun {tgt.id} '{ST} =>\n{body}) {src} {ST} in\n"
            return s + f"{pad}match r__ with Some v__ => (Some v__, {ST}) | None =>\n{self.block(rest, ind)}\n{pad}end"
        fail(st, "statement")

    def check_loop(self, st):
        """the translation iterates over a snapshot of the list taken when the loop starts; that is what Python does
        only if the body does not rebind the list and writes to it at most at the index being visited"""
        it = st.iter
        idx = None
        if isinstance(it, ast.Call) and isinstance(it.func, ast.Name) and it.func.id == "enumerate" and len(it.args) == 1:
            if isinstance(st.target, ast.Tuple) and isinstance(st.target.elts[0], ast.Name):
                idx = st.target.elts[0].id
            it = it.args[0]
        src = ("l", it.id) if isinstance(it, ast.Name) else ("a", it.attr) if self.is_self_attr(it) else None
        if src is None:
            fail(st, "loop over something that is not a variable")
        for n in ast.walk(ast.Module(body=st.body, type_ignores=[])):
            if isinstance(n, (ast.Assign, ast.AugAssign)):
                for t in (n.targets if isinstance(n, ast.Assign) else [n.target]):
                    if isinstance(t, ast.Name) and src == ("l", t.id):
                        fail(n, "the loop body rebinds the list it iterates over")
                    if self.is_self_attr(t) and src == ("a", t.attr):
                        fail(n, "the loop body rebinds the list it iterates over")
                    if isinstance(t, ast.Subscript):
                        base = t.value
                        same = (isinstance(base, ast.Name) and src == ("l", base.id)) or (self.is_self_attr(base) and src == ("a", base.attr))
                        if same and not (idx is not None and isinstance(t.slice, ast.Name) and t.slice.id == idx):
                            fail(n, "the loop body writes to the list it iterates over at another index")

    def emit(self):
        attrs = [v for k, v in self.order if k == "a"]
        params = "".join(f" (self_{f} : Z)" for f in self.fields) + \
                 "".join(f" (self_{a} : {self.COQTY[self.attrs[a]]})" for a in attrs)
        out_t = "tt"
        for a in reversed(attrs):
            out_t = f"(self_{a}, {out_t})"
        inits = "".join(f"  let {v} := {self.DEFAULT[self.locals[v]]} in\n" for k, v in self.order if k == "l")
        return (f"Definition {self.cname}_call{params} ({self.det} : list dstate) :=\n{inits}"
                f"  let '(r__, {self.st_tuple()}) :=\n{self.block(self.call.body, 2)} in\n"
                f"  (match r__ with Some v__ => v__ | None => DNone end, {out_t}).\n")


def translate(src):
    tree = ast.parse(src)
    out = ["(** GENERATED by tools/py2coq_election.py from menelaus/ensemble/election.py - do not edit. *)",
           "From MV Require Import Base PyRt.", ""]
    names = []
    for node in tree.body:
        if not isinstance(node, ast.ClassDef):
            continue
        fns = {f.name: f for f in node.body if isinstance(f, ast.FunctionDef)}
        extra = set(fns) - {"__init__", "__call__"}
        if "__call__" not in fns:
            continue
        if any(isinstance(d, ast.Name) and d.id == "abstractmethod" for d in fns["__call__"].decorator_list):
            continue
        if extra:
            raise Unsupported(f"class {node.name}: methods other than __init__/__call__: {sorted(extra)}")
        out.append(Fn(node.name, fns.get("__init__"), fns["__call__"]).emit())
        names.append(node.name)
    out.append("Definition generated_classes : list nat := " + "[" + "; ".join(str(len(n)) for n in names) + "]%nat.")
    return "\n".join(out) + "\n", names


if __name__ == "__main__":
    try:
        text, names = translate(open(sys.argv[1]).read())
    except Unsupported as e:
        print(f"unsupported: {e}", file=sys.stderr)
        sys.exit(3)
    open(sys.argv[2], "w").write(text)
    print("translated:", " ".join(names))
