#!/venv/bin/python
"""Regenerates MANIFEST.json from tools/claims.json (single source for claimed checks)."""
import json, os
V = "/verif"
claims = json.load(open(f"{V}/tools/claims.json"))
props = [json.loads(l) for l in open(f"{V}/properties.jsonl")]
checks, na = [], []
for p in props:
    c = claims["checks"].get(p["id"])
    if c is None:
        na.append({"property_id": p["id"], "reason": claims["not_applicable"].get(p["id"], "check not built yet (work in progress; the technique applies, see DESIGN.md section 5)")})
        continue
    checks.append({
        "property_id": p["id"],
        "quick_cmd": f"./vcheck {p['id']} --tier quick",
        "thorough_cmd": f"./vcheck {p['id']} --tier thorough",
        "evidence_file": f"/verif/evidence/{p['id']}.json",
        "replay_cmd_template": f"./vcheck {p['id']} --replay {{path}}",
        "engine": "coq-model+correspondence",
        "level_claimed": {"category": "proof", "text": c["text"], "design_ref": c.get("design_ref", "DESIGN.md section 5 / " + p["id"])},
        "level_note": c["note"],
        "technique": c["technique"],
    })
m = {
    "version": 1,
    "setup_cmd": "cd /verif/coq && rm -f Makefile Makefile.conf && coq_makefile -f _CoqProject -o Makefile && make -j16",
    "hooks": {"guard": "MENELAUS_VERIF", "enable": "no source hooks: every observable is read from outside; checks run /repo's working tree via PYTHONPATH=/repo",
              "baseline_off_cmd": "cd /repo && /venv/bin/python -m pytest -ra -q -p no:cacheprovider --timeout=900 --continue-on-collection-errors",
              "source_commits": [], "add_only": True},
    "engines": [{"name": "coq-model+correspondence", "path": "/verif/coq + /verif/harness",
                 "serves_properties": [c["property_id"] for c in checks],
                 "kind_free_text": "hand-written executable Coq 8.16 models with machine-checked theorems (Prop_*.v), tied to /repo's working tree on every run by differential correspondence (vm_compute on generated cases_*.v) plus a direct property oracle on the implementation for replays"}],
    "checks": checks,
    "notes": claims.get("notes", ""),
    "not_applicable": na,
}
json.dump(m, open(f"{V}/MANIFEST.json", "w"), indent=1)
print(len(checks), "claimed;", len(na), "not claimed")
