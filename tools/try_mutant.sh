#!/bin/bash
# usage: tools/try_mutant.sh <patch.diff> <ID> [<ID> ...]  -- apply to /repo, run the checks, always undo
P=$1; shift
git -C /repo apply "$(realpath "$P")" || { echo "patch does not apply"; exit 2; }
trap 'git -C /repo checkout -- . ' EXIT
for id in "$@"; do
  VERIF_NO_EVIDENCE=1 /verif/vcheck $id 2>&1 | tail -8
  echo "exit=$? (check $id)"
done
