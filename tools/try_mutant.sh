#!/bin/bash
# usage: tools/try_mutant.sh <patch.diff> <ID> [<ID> ...]
# applies the change to a scratch worktree of /repo (never to /repo itself, which other work may be using),
# runs the checks against it (VERIF_REPO), and removes the worktree
P=$(realpath "$1"); shift
WT=$(mktemp -d /tmp/trymut.XXXXXX)
git -C /repo worktree add -q --detach "$WT/repo" HEAD || exit 2
trap 'git -C /repo worktree remove --force "$WT/repo" 2>/dev/null; rm -rf "$WT"' EXIT
git -C "$WT/repo" apply "$P" || { echo "patch does not apply"; exit 2; }
for id in "$@"; do
  VERIF_REPO="$WT/repo" VERIF_NO_EVIDENCE=1 VERIF_SKIP_BUILD=1 /verif/vcheck $id 2>&1 | tail -8
done
