#!/venv/bin/python
"""Fail-closed translator: arithmetic core of PageHinkley.update / DDM.update / EDDM.update  ->  Gallina, generic in N : Num.

For each configured class the statements of `update` that FOLLOW the unique top-level `super().update(...)` call (the
"slice"; what precedes it - reset after a drift, input validation, the counters that super().update increments - is the
generic machine coq/Lifecycle.v and is not translated) become one Coq function

    <Class>_core {N : Num} (<one argument per configured parameter attribute>) (self_samples_since_reset : Z)
                 (st : <tuple of the configured state attributes>) (<input>)
        : <tuple of the state attributes after the update> * option dstate * bool

  * second component: what the slice assigns to `self.drift_state` (Some DDrift / Some DWarn / Some DNone), None when
    no assignment is executed - exactly the `od` that Lifecycle.update expects from a kernel's step_e;
  * third component ("bound"): false iff the slice reads a local variable on a path that has not assigned it (Python
    raises UnboundLocalError there; the Coq value of such a read is a default and must not be relied upon).

Canonical form: a let-chain in source order; `x = e` is `let x := e in`; an `if` without `return` inside is
`let '(v1, .., vk) := if c then .. else .. in` over the variables it assigns that are still needed (one variable:
`let v := if c then .. else v in`); an `if` that contains a `return` is `if c then <body; rest> else <orelse; rest>`.
Arithmetic keeps Python's evaluation order and association; an int operand of a float operation is converted with
`fofZ` where Python converts; `int(<bool>)` is a 0/1 value whose float conversion is `if b then f1 else f0`.

Anything outside the fragment raises Unsupported (exit code 3): the caller then reports the tie as not applicable.

usage: py2coq_scalar.py <repo root> <out.v> [Class ...]     (default: all configured classes)
       exit 0 = written, 3 = unsupported construct (message on stderr)
"""
import ast, os, sys

# ------------------------------------------------------------------------------------------------------------------
# CONFIG (trusted): what each attribute / input is.  Types: "float" (F N), "int" (Z), "str" (string),
# "optfloat" (option (F N): None or a float).
#   params    read-only attributes set by __init__ from constructor arguments
#   counter   read-only int maintained by the lifecycle machine (value AFTER the increment made by super().update)
#   state     per-epoch attributes the slice may read and assign; their order is the order of the Coq tuple
#   input     what the slice receives:
#               ("float", "X")                   the method parameter X after _validate_input, read as ONE double
#                                                (the code holds it as a 1x1 numpy array; element-wise arithmetic on a
#                                                1x1 float64 array is IEEE double arithmetic on its element)
#               ("labels", "y_true", "y_pred")   the slice must start with `y_true, y_pred = y_true[0], y_pred[0]`;
#                                                afterwards the two names may only occur in `y_pred == y_true` /
#                                                `y_pred != y_true` (either order): the Coq input is the boolean
#                                                `correct` = the RESULT of y_pred == y_true, `!=` is `negb correct`
#   history   list attributes that only record what was computed: `self.<h>.append(<call-free expr>)` is skipped
#   lifecycle zero-argument `self.<m>()` calls that belong to the lifecycle machine (retraining_recs): skipped, as is
#             an `if <call-free test>:` whose whole body consists of skipped statements
# ------------------------------------------------------------------------------------------------------------------
CONFIGS = {
    "PageHinkley": dict(
        file="menelaus/change_detection/page_hinkley.py", method="update",
        params=[("delta", "float"), ("threshold", "float"), ("burn_in", "int"), ("direction", "str")],
        counter="samples_since_reset",
        state=[("_max", "float"), ("_min", "float"), ("_sum", "float"), ("_mean", "float")],
        input=("float", "X"),
        history=["_change_scores", "_page_hinkley_values", "_page_hinkley_differences", "_theta_threshold",
                 "_drift_detected", "_maxes", "_mins", "_means"],
        lifecycle=[],
    ),
    "DDM": dict(
        file="menelaus/concept_drift/ddm.py", method="update",
        params=[("n_threshold", "int"), ("warning_scale", "float"), ("drift_scale", "float")],
        counter="samples_since_reset",
        state=[("_error_rate", "float"), ("_error_std", "float"), ("_error_rate_min", "float"), ("_error_std_min", "float")],
        input=("labels", "y_true", "y_pred"),
        history=[],
        lifecycle=["_increment_retraining_recs", "_initialize_retraining_recs"],
    ),
    "EDDM": dict(
        file="menelaus/concept_drift/eddm.py", method="update",
        params=[("n_threshold", "int"), ("warning_thresh", "float"), ("drift_thresh", "float")],
        counter="samples_since_reset",
        state=[("_n_errors", "int"), ("_index_error_curr", "int"), ("_index_error_last", "int"),
               ("_dist_mean", "float"), ("_dist_std", "float"), ("_max_numerator", "float"), ("_test_statistic", "optfloat")],
        input=("labels", "y_true", "y_pred"),
        history=[],
        lifecycle=["_increment_retraining_recs", "_initialize_retraining_recs"],
    ),
}

STATE = {"drift": "DDrift", "warning": "DWarn", None: "DNone"}
COQTY = {"float": "F N", "int": "Z", "str": "string", "optfloat": "option (F N)", "bool": "bool", "bit": "bool"}
DEFAULT = {"float": "f0", "int": "0%Z", "bool": "false", "bit": "false"}

PREAMBLE = """From Coq Require Import String.
From MV Require Import Base Num.

(** float(int(b)) for a Python bool b: 1.0 or 0.0 *)
Definition py_bit {N : Num} (b : bool) : F N := if b then f1 else f0.
(** int(b) *)
Definition py_bitZ (b : bool) : Z := if b then 1%Z else 0%Z.
"""


class Unsupported(Exception):
    pass


class Restart(Exception):
    """a local turned out to need a definedness flag: translate again"""


def fail(node, why):
    raise Unsupported(f"line {getattr(node, 'lineno', '?')}: {why}: {ast.dump(node)[:200] if isinstance(node, ast.AST) else node}")


def is_self_attr(n):
    return isinstance(n, ast.Attribute) and isinstance(n.value, ast.Name) and n.value.id == "self"


def is_super_call(st, name):
    """`super().<name>(...)` as an expression statement"""
    return (isinstance(st, ast.Expr) and isinstance(st.value, ast.Call) and isinstance(st.value.func, ast.Attribute)
            and st.value.func.attr == name and isinstance(st.value.func.value, ast.Call)
            and isinstance(st.value.func.value.func, ast.Name) and st.value.func.value.func.id == "super")


def call_free(e):
    return not any(isinstance(n, (ast.Call, ast.Await, ast.Yield, ast.YieldFrom, ast.NamedExpr, ast.Lambda)) for n in ast.walk(e))


class Env:
    """what is known at a program point"""

    def __init__(self, definite=(), known=None):
        self.definite = set(definite)          # locals bound on every path reaching this point
        self.known = dict(known or {})         # optfloat attribute -> Coq variable holding its (non-None) value

    def copy(self):
        return Env(self.definite, self.known)


class Core:
    def __init__(self, cname, cfg, module, fn):
        self.cname, self.cfg, self.fn = cname, cfg, fn
        self.params = dict(cfg["params"])
        self.state = dict(cfg["state"])
        self.state_order = [a for a, _ in cfg["state"]]
        self.counter = cfg["counter"]
        self.np_alias = {a.asname or a.name for st in module.body if isinstance(st, ast.Import) for a in st.names
                         if a.name in ("numpy", "math")}
        self.ltypes = {}                       # local -> type
        self.flagged = set()                   # locals that need a definedness flag
        self.labels = ()
        self.inputs = []                       # (coq name, coq type)
        self.slice = self.find_slice()

    # ---------------------------------------------------------------- slice
    def find_slice(self):
        body = self.fn.body
        idx = [i for i, st in enumerate(body) if is_super_call(st, self.cfg["method"])]
        if len(idx) != 1:
            fail(self.fn, f"expected exactly one top-level `super().{self.cfg['method']}(...)` statement, found {len(idx)}")
        pro, sl = body[:idx[0]], body[idx[0] + 1:]
        # the prologue is the lifecycle machine's business, but it must not touch what the slice computes with
        for n in ast.walk(ast.Module(body=pro, type_ignores=[])):
            tg = []
            if isinstance(n, ast.Assign):
                tg = n.targets
            elif isinstance(n, (ast.AugAssign, ast.AnnAssign)):
                tg = [n.target]
            for t in tg:
                for m in ast.walk(t):
                    if is_self_attr(m) and (m.attr in self.state or m.attr in self.params or m.attr == self.counter):
                        fail(n, f"the statements before super().update assign self.{m.attr}")
        inp = self.cfg["input"]
        if inp[0] == "float":
            args = [a.arg for a in self.fn.args.args]
            if inp[1] not in args:
                fail(self.fn, f"no parameter {inp[1]}")
            self.ltypes[inp[1]] = "float"
            self.inputs = [("v_" + inp[1], "F N")]
            self.pre_bound = {inp[1]}
        else:
            a, b = inp[1], inp[2]
            ok = False
            if sl and isinstance(sl[0], ast.Assign) and len(sl[0].targets) == 1 and isinstance(sl[0].targets[0], ast.Tuple) \
                    and isinstance(sl[0].value, ast.Tuple) and len(sl[0].targets[0].elts) == 2 and len(sl[0].value.elts) == 2:
                names = []
                for t, v in zip(sl[0].targets[0].elts, sl[0].value.elts):
                    if isinstance(t, ast.Name) and isinstance(v, ast.Subscript) and isinstance(v.value, ast.Name) \
                            and v.value.id == t.id and isinstance(v.slice, ast.Constant) and v.slice.value == 0 \
                            and type(v.slice.value) is int:
                        names.append(t.id)
                ok = sorted(names) == sorted([a, b])
            if not ok:
                fail(sl[0] if sl else self.fn, f"the slice must start with `{a}, {b} = {a}[0], {b}[0]`")
            sl = sl[1:]
            self.labels = (a, b)
            self.inputs = [("correct", "bool")]
            self.pre_bound = set()
        return sl

    # ---------------------------------------------------------------- skipped statement shapes
    def skipped(self, st):
        if isinstance(st, ast.Pass):
            return True
        if isinstance(st, ast.Expr) and isinstance(st.value, ast.Constant) and isinstance(st.value.value, str):
            return True                                                     # docstring / bare string
        if isinstance(st, ast.Expr) and isinstance(st.value, ast.Call):
            c = st.value
            if isinstance(c.func, ast.Attribute) and c.func.attr == "append" and is_self_attr(c.func.value) \
                    and c.func.value.attr in self.cfg["history"] and len(c.args) == 1 and not c.keywords and call_free(c.args[0]):
                return True                                                 # self.<history>.append(expr)
            if is_self_attr(c.func) and c.func.attr in self.cfg["lifecycle"] and not c.args and not c.keywords:
                return True                                                 # self._increment_retraining_recs()
            return False
        if isinstance(st, ast.If) and call_free(st.test) and st.body and all(self.skipped(s) for s in st.body) \
                and all(self.skipped(s) for s in st.orelse):
            return True                                                     # if <test>: <only skipped statements>
        return False

    def strip(self, stmts):
        out = []
        for st in stmts:
            if self.skipped(st):
                continue
            if isinstance(st, ast.If):
                st = ast.copy_location(ast.If(test=st.test, body=self.strip(st.body), orelse=self.strip(st.orelse)), st)
            out.append(st)
        return out

    # ---------------------------------------------------------------- syntactic helpers
    @staticmethod
    def has_return(stmts):
        return any(isinstance(n, ast.Return) for st in stmts for n in ast.walk(st))

    def target_key(self, t, node):
        if isinstance(t, ast.Name):
            if t.id in self.labels:
                fail(node, "assignment to a label input")
            return ("l", t.id)
        if is_self_attr(t):
            if t.attr == "drift_state":
                return ("d", "drift_state")
            if t.attr in self.state:
                return ("a", t.attr)
            fail(node, f"assignment to self.{t.attr}, which the configuration does not list as state")
        fail(node, "unsupported assignment target")

    def assigned(self, stmts):
        out = []
        for st in stmts:
            if isinstance(st, ast.Assign):
                if len(st.targets) != 1:
                    fail(st, "multiple assignment targets")
                k = self.target_key(st.targets[0], st)
            elif isinstance(st, ast.AugAssign):
                k = self.target_key(st.target, st)
            elif isinstance(st, ast.If):
                for k2 in self.assigned(st.body) + self.assigned(st.orelse):
                    if k2 not in out:
                        out.append(k2)
                continue
            elif isinstance(st, ast.Return):
                continue
            else:
                fail(st, "unsupported statement")
            if k not in out:
                out.append(k)
        return out

    def reads(self, stmts):
        """locals read anywhere in the statements"""
        r = set()
        for st in stmts:
            for n in ast.walk(st):
                if isinstance(n, ast.Name) and isinstance(n.ctx, ast.Load):
                    r.add(n.id)
                if isinstance(n, ast.AugAssign) and isinstance(n.target, ast.Name):
                    r.add(n.target.id)
        return r

    # ---------------------------------------------------------------- names
    def cv(self, key):
        kind, v = key
        return {"l": "v_" + v, "a": "self_" + v, "d": "ds__", "b": "b_" + v, "o": "ok__"}[kind]

    def need_flag(self, v):
        if v not in self.flagged:
            self.flagged.add(v)
            raise Restart()

    # ---------------------------------------------------------------- expressions: (coq text, type, guards)
    def tofloat(self, x, node):
        c, t = x
        if t == "float":
            return c
        if t == "int":
            return f"(fofZ {c})"
        if t == "bit":
            return f"(py_bit {c})"
        fail(node, f"a {t} where a number is needed")

    def toint(self, x, node):
        c, t = x
        if t == "int":
            return c
        if t == "bit":
            return f"(py_bitZ {c})"
        fail(node, f"a {t} where an int is needed")

    def ex(self, e, env, g):
        """g: list collecting the locals read while not definitely bound"""
        if isinstance(e, ast.Constant):
            if type(e.value) is int:
                return (f"({e.value})%Z" if e.value < 0 else f"{e.value}%Z", "int")
            fail(e, "constant (only int literals are numbers of the fragment)")
        if isinstance(e, ast.Name):
            if e.id in self.labels:
                fail(e, "a label input outside `y_pred == y_true` / `y_pred != y_true`")
            if e.id not in self.ltypes:
                fail(e, "read of a name that is not assigned before")
            if e.id not in env.definite:
                self.need_flag(e.id) if e.id not in self.flagged else None
                if e.id not in g:
                    g.append(e.id)
            return ("v_" + e.id, self.ltypes[e.id])
        if is_self_attr(e):
            a = e.attr
            if a in self.params:
                return ("self_" + a, self.params[a])
            if a == self.counter:
                return ("self_" + a, "int")
            if a in self.state:
                if self.state[a] == "optfloat":
                    if a in env.known:
                        return (env.known[a], "float")
                    fail(e, f"read of self.{a}, which may be None here")
                return ("self_" + a, self.state[a])
            fail(e, f"read of self.{a}, which the configuration does not describe")
        if isinstance(e, ast.UnaryOp):
            if isinstance(e.op, ast.Not):
                return (f"(negb {self.truth(e.operand, env, g)})", "bool")
            if isinstance(e.op, ast.USub):
                x = self.ex(e.operand, env, g)
                if x[1] == "float":
                    return (f"(fneg {x[0]})", "float")
                return (f"(- {self.toint(x, e)})%Z", "int")
            fail(e, "unary operator")
        if isinstance(e, ast.BinOp):
            x, y = self.ex(e.left, env, g), self.ex(e.right, env, g)          # Python evaluates left to right
            isf = "float" in (x[1], y[1])
            if isinstance(e.op, (ast.Add, ast.Sub, ast.Mult)):
                s = {ast.Add: "+", ast.Sub: "-", ast.Mult: "*"}[type(e.op)]
                if isf:
                    return (f"({self.tofloat(x, e)} {s} {self.tofloat(y, e)})%num", "float")
                return (f"({self.toint(x, e)} {s} {self.toint(y, e)})%Z", "int")
            if isinstance(e.op, ast.Div):
                if not isf:
                    fail(e, "true division of two ints (correctly rounded exact quotient: not fdiv of the conversions in general)")
                return (f"({self.tofloat(x, e)} / {self.tofloat(y, e)})%num", "float")
            if isinstance(e.op, ast.FloorDiv) and not isf:
                return (f"({self.toint(x, e)} / {self.toint(y, e)})%Z", "int")
            fail(e, "operator")
        if isinstance(e, ast.Compare):
            if len(e.ops) != 1:
                fail(e, "chained comparison")
            a, b, op = e.left, e.comparators[0], e.ops[0]
            if isinstance(a, ast.Name) and isinstance(b, ast.Name) and {a.id, b.id} == set(self.labels) and self.labels:
                if isinstance(op, ast.Eq):
                    return ("correct", "bool")
                if isinstance(op, ast.NotEq):
                    return ("(negb correct)", "bool")
                fail(e, "comparison of the labels other than == / !=")
            if isinstance(b, ast.Constant) and isinstance(b.value, str):
                x = self.ex(a, env, g)
                if x[1] != "str" or not isinstance(op, (ast.Eq, ast.NotEq)) or '"' in b.value or "\\" in b.value \
                        or not b.value.isascii():
                    fail(e, "string comparison")
                t = f'(String.eqb {x[0]} "{b.value}"%string)'
                return (t if isinstance(op, ast.Eq) else f"(negb {t})", "bool")
            x, y = self.ex(a, env, g), self.ex(b, env, g)
            if x[1] == "float" and y[1] == "float":
                p, q = x[0], y[0]
                t = {ast.Lt: f"({p} <? {q})%num", ast.LtE: f"({p} <=? {q})%num", ast.Gt: f"({q} <? {p})%num",
                     ast.GtE: f"({q} <=? {p})%num", ast.Eq: f"(feqb {p} {q})", ast.NotEq: f"(negb (feqb {p} {q}))"}.get(type(op))
            elif x[1] in ("int", "bit") and y[1] in ("int", "bit"):
                p, q = self.toint(x, e), self.toint(y, e)
                t = {ast.Lt: f"({p} <? {q})%Z", ast.LtE: f"({p} <=? {q})%Z", ast.Gt: f"({q} <? {p})%Z",
                     ast.GtE: f"({q} <=? {p})%Z", ast.Eq: f"({p} =? {q})%Z", ast.NotEq: f"(negb ({p} =? {q})%Z)"}.get(type(op))
            else:
                fail(e, f"comparison of a {x[1]} with a {y[1]} (Python compares an int with a float exactly)")
            return (t or fail(e, "comparison operator"), "bool")
        if isinstance(e, ast.BoolOp):
            vs = [self.ex(v, env, g) for v in e.values]
            if any(t != "bool" for _, t in vs):
                fail(e, "and / or of values that are not bools")
            # a later operand is only evaluated if needed; its reads of unbound locals are over-approximated (sound:
            # the flag can only become false more often)
            return ("(" + (" && " if isinstance(e.op, ast.And) else " || ").join(c for c, _ in vs) + ")", "bool")
        if isinstance(e, ast.Call):
            if e.keywords:
                fail(e, "keyword arguments")
            f = e.func
            if isinstance(f, ast.Attribute) and f.attr == "sqrt" and isinstance(f.value, ast.Name) and f.value.id in self.np_alias \
                    and len(e.args) == 1:
                x = self.ex(e.args[0], env, g)
                if x[1] != "float":
                    fail(e, "sqrt of something that is not a float")
                return (f"(fsqrt {x[0]})", "float")
            if isinstance(f, ast.Name) and f.id == "int" and len(e.args) == 1:
                x = self.ex(e.args[0], env, g)
                if x[1] == "bool":
                    return (x[0], "bit")
                if x[1] in ("int", "bit"):
                    return x
                fail(e, "int() of something that is not a bool or an int")
            if isinstance(f, ast.Name) and f.id == "float" and len(e.args) == 1:
                x = self.ex(e.args[0], env, g)
                return (self.tofloat(x, e), "float")
            if isinstance(f, ast.Name) and f.id in ("max", "min") and len(e.args) == 2:
                x, y = self.ex(e.args[0], env, g), self.ex(e.args[1], env, g)
                if x[1] != "float" or y[1] != "float":
                    fail(e, "max / min of values that are not both floats")
                return (f"(py{f.id} {x[0]} {y[0]})", "float")
            if isinstance(f, ast.Name) and f.id == "abs" and len(e.args) == 1:
                x = self.ex(e.args[0], env, g)
                if x[1] != "float":
                    fail(e, "abs of something that is not a float")
                return (f"(fabs {x[0]})", "float")
            fail(e, "call")
        fail(e, "expression")

    def truth(self, e, env, g):
        """truth value of e in `if e` / `not e`"""
        if isinstance(e, ast.BoolOp):
            return "(" + (" && " if isinstance(e.op, ast.And) else " || ").join(self.truth(v, env, g) for v in e.values) + ")"
        c, t = self.ex(e, env, g)
        if t in ("bool", "bit"):
            return c
        if t == "int":
            return f"(negb ({c} =? 0)%Z)"
        fail(e, f"truth value of a {t}")

    # ---------------------------------------------------------------- statements
    def guards(self, g, pad):
        self.nguards += len(g)
        return "".join(f"{pad}let ok__ := ok__ && b_{v} in\n" for v in g)

    def tuple_of(self, keys):
        return "(" + ", ".join(self.cv(k) for k in keys) + ")" if len(keys) != 1 else self.cv(keys[0])

    def block(self, stmts, env, term, live, ind):
        """Coq expression for `stmts` followed by the terminal `term` (a list of variable keys, or None = the result
        triple).  `live`: locals read after this block.  Returns the text; `env` is updated to the state at the end
        when the block falls through."""
        pad = "  " * ind
        if not stmts:
            return pad + (self.result() if term is None else self.tuple_of(term))
        st, rest = stmts[0], stmts[1:]
        if isinstance(st, ast.Return):
            if term is not None:
                fail(st, "internal: return inside a merged branch")
            if st.value is not None and not (isinstance(st.value, ast.Constant) and st.value.value is None):
                fail(st, "return of a value")
            return pad + self.result()
        if isinstance(st, (ast.Assign, ast.AugAssign)):
            return self.assign(st, rest, env, term, live, ind)
        if isinstance(st, ast.If):
            g = []
            c = self.truth(st.test, env, g)
            head = self.guards(g, pad)
            if self.has_return([st]):
                if term is not None:
                    fail(st, "internal: return inside a merged branch")
                e1, e2 = env.copy(), env.copy()
                return (head + f"{pad}if {c}\n{pad}then\n{self.block(st.body + rest, e1, None, live, ind + 1)}\n"
                        f"{pad}else\n{self.block(st.orelse + rest, e2, None, live, ind + 1)}")
            if not rest and term is not None:
                # the continuation is just the terminal tuple: no merge needed
                e1, e2 = env.copy(), env.copy()
                t1 = self.block(st.body, e1, term, live, ind + 1)
                t2 = self.block(st.orelse, e2, term, live, ind + 1)
                self.join(env, e1, e2, st)
                return head + f"{pad}if {c}\n{pad}then\n{t1}\n{pad}else\n{t2}"
            after = self.reads(rest) | live
            keys = [k for k in self.assigned([st]) if k[0] != "l" or k[1] in after]
            keys += self.flag_keys(keys, env, st)
            live_in = after | {k[1] for k in keys if k[0] == "l"}
            for mk in (keys, keys + [("o", "")]):
                # second round: a branch reads a possibly unbound local, so the flag ok__ is merged as well
                e1, e2 = env.copy(), env.copy()
                n0 = self.nguards
                t1 = self.block(st.body, e1, mk, live_in, ind + 2)
                t2 = self.block(st.orelse, e2, mk, live_in, ind + 2)
                if self.nguards == n0:
                    break
            self.join(env, e1, e2, st)
            if not mk:
                return head + self.block(rest, env, term, live, ind)
            if len(mk) == 1:
                lhs = f"let {self.cv(mk[0])} :="
            else:
                lhs = f"let '{self.tuple_of(mk)} :="
            return (head + f"{pad}{lhs}\n{pad}  if {c}\n{pad}  then\n{t1}\n{pad}  else\n{t2} in\n"
                    + self.block(rest, env, term, live, ind))
        fail(st, "unsupported statement")

    def flag_keys(self, keys, env, st):
        """merged locals that are not bound on every path after the `if` carry their flag through the merge"""
        out = []
        for k in keys:
            if k[0] != "l" or k[1] in env.definite:
                continue
            e1, e2 = env.copy(), env.copy()
            d1 = self.def_after(st.body, e1.definite)
            d2 = self.def_after(st.orelse, e2.definite)
            if not (k[1] in d1 and k[1] in d2):
                if k[1] not in self.flagged:
                    self.need_flag(k[1])
                out.append(("b", k[1]))
        return out

    def def_after(self, stmts, definite):
        """locals definitely bound after the statements (no returns inside)"""
        d = set(definite)
        for st in stmts:
            if isinstance(st, ast.Assign) and isinstance(st.targets[0], ast.Name):
                d.add(st.targets[0].id)
            elif isinstance(st, ast.If):
                d |= self.def_after(st.body, d) & self.def_after(st.orelse, d)
        return d

    def join(self, env, e1, e2, st):
        env.definite = e1.definite & e2.definite
        for k in self.assigned([st]):
            if k[0] == "a":
                env.known.pop(k[1], None)      # the value variable bound inside a branch is not visible after it

    def assign(self, st, rest, env, term, live, ind):
        pad = "  " * ind
        aug = isinstance(st, ast.AugAssign)
        tgt = st.target if aug else st.targets[0]
        if not aug and len(st.targets) != 1:
            fail(st, "multiple assignment targets")
        key = self.target_key(tgt, st)
        g = []
        if key[0] == "d":
            if aug or not isinstance(st.value, ast.Constant) or st.value.value not in STATE or isinstance(st.value.value, bool):
                fail(st, 'drift_state may only be assigned "drift", "warning" or None')
            if not rest and term == [key]:
                return f"{pad}Some {STATE[st.value.value]}"
            return f"{pad}let ds__ := Some {STATE[st.value.value]} in\n" + self.block(rest, env, term, live, ind)
        if aug:
            val = self.ex(ast.copy_location(ast.BinOp(left=ast.copy_location(
                ast.Name(id=tgt.id, ctx=ast.Load()) if isinstance(tgt, ast.Name)
                else ast.Attribute(value=ast.Name(id="self", ctx=ast.Load()), attr=tgt.attr, ctx=ast.Load()), st),
                op=st.op, right=st.value), st), env, g)
        elif isinstance(st.value, ast.Constant) and st.value.value is None:
            val = ("None", "none")
        else:
            val = self.ex(st.value, env, g)
        head = self.guards(g, pad)
        if key[0] == "l":
            t = val[1]
            if t not in ("float", "int", "bool", "bit"):
                fail(st, f"local of type {t}")
            if self.ltypes.setdefault(key[1], t) != t:
                fail(st, f"variable {key[1]} changes type ({self.ltypes[key[1]]} / {t})")
            env.definite.add(key[1])
            s = head + f"{pad}let v_{key[1]} := {val[0]} in\n"
            if key[1] in self.flagged:
                s += f"{pad}let b_{key[1]} := true in\n"
            return s + self.block(rest, env, term, live, ind)
        a, ty = key[1], self.state[key[1]]
        if ty == "optfloat":
            if val[1] == "none":
                env.known.pop(a, None)
                return head + f"{pad}let self_{a} := @None (F N) in\n" + self.block(rest, env, term, live, ind)
            v = self.tofloat(val, st)
            env.known[a] = f"self_{a}_v"
            return (head + f"{pad}let self_{a}_v := {v} in\n{pad}let self_{a} := Some self_{a}_v in\n"
                    + self.block(rest, env, term, live, ind))
        if ty == "float":
            # an int stored in a float attribute stays an int in Python; its later uses convert it exactly as fofZ does
            # only if every use is a float operation - refuse instead
            if val[1] != "float":
                fail(st, f"a {val[1]} assigned to the float attribute self.{a}")
            v = val[0]
        elif ty == "int":
            if val[1] not in ("int", "bit"):
                fail(st, f"a {val[1]} assigned to the int attribute self.{a}")
            v = self.toint(val, st)
        else:
            fail(st, f"assignment to the {ty} attribute self.{a}")
        if not rest and term == [key] and not head:
            return f"{pad}{v}"                      # `let x := e in x` written as `e`
        return head + f"{pad}let self_{a} := {v} in\n" + self.block(rest, env, term, live, ind)

    def result(self):
        return "((" + ", ".join("self_" + a for a in self.state_order) + "), ds__, ok__)"

    # ---------------------------------------------------------------- whole function
    def emit(self):
        stmts = self.strip(self.slice)
        base_types = dict(self.ltypes)
        while True:
            self.ltypes = dict(base_types)
            self.nguards = 0
            try:
                body = self.block(stmts, Env(self.pre_bound), None, set(), 1)
                break
            except Restart:
                continue
        cfg = self.cfg
        params = "".join(f" (self_{a} : {COQTY[t]})" for a, t in cfg["params"])
        st_ty = " * ".join(COQTY[t] for _, t in cfg["state"])
        inputs = "".join(f" ({n} : {t})" for n, t in self.inputs)
        pre = f"  let '({', '.join('self_' + a for a in self.state_order)}) := st in\n"
        pre += "  let ds__ := @None dstate in\n  let ok__ := true in\n"
        for v in sorted(self.flagged):
            pre += f"  let v_{v} := {DEFAULT[self.ltypes[v]]} in (* unbound until assigned *)\n  let b_{v} := false in\n"
        return (f"(* BEGIN {self.cname} *)\n"
                f"(** {cfg['file']} : {self.cname}.{cfg['method']}, statements after super().{cfg['method']}(...) *)\n"
                f"Definition {self.cname}_core {{N : Num}}{params} (self_{self.counter} : Z)\n"
                f"    (st : {st_ty}){inputs}\n    : ({st_ty}) * option dstate * bool :=\n{pre}{body}.\n"
                f"(* END {self.cname} *)\n")


def translate(root, classes):
    out = ["(** GENERATED by tools/py2coq_scalar.py from " + ", ".join(CONFIGS[c]["file"] for c in classes)
           + " - do not edit. *)", PREAMBLE]
    for cname in classes:
        cfg = CONFIGS[cname]
        path = os.path.join(root, cfg["file"])
        try:
            module = ast.parse(open(path).read())
        except (OSError, SyntaxError) as e:
            raise Unsupported(f"{path}: {e}")
        cls = [n for n in module.body if isinstance(n, ast.ClassDef) and n.name == cname]
        if len(cls) != 1:
            raise Unsupported(f"{path}: class {cname} not found exactly once")
        fns = [f for f in cls[0].body if isinstance(f, ast.FunctionDef) and f.name == cfg["method"]]
        if len(fns) != 1 or fns[0].decorator_list:
            raise Unsupported(f"{path}: method {cname}.{cfg['method']} not found exactly once (undecorated)")
        try:
            out.append(Core(cname, cfg, module, fns[0]).emit())
        except Unsupported as e:
            raise Unsupported(f"{cfg['file']}: {e}")
    return "\n".join(out)


if __name__ == "__main__":
    classes = sys.argv[3:] or list(CONFIGS)
    try:
        for c in classes:
            if c not in CONFIGS:
                raise Unsupported(f"no configuration for class {c}")
        text = translate(sys.argv[1], classes)
    except Unsupported as e:
        print(f"unsupported: {e}", file=sys.stderr)
        sys.exit(3)
    open(sys.argv[2], "w").write(text)
    print("translated:", " ".join(classes))
