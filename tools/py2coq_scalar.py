#!/venv/bin/python
"""Fail-closed translator: arithmetic core of PageHinkley / DDM / EDDM / STEPD / CUSUM .update  ->  Gallina, generic in N : Num.

For each configured class the statements of `update` that FOLLOW the unique top-level `super().update(...)` call (the
"slice"; what precedes it - reset after a drift, input validation, the counters that super().update increments - is the
generic machine coq/Lifecycle.v and is not translated) become one Coq function

    <Class>_core {N : Num} (<one argument per configured parameter attribute>) (self_samples_since_reset : Z)
                 (st : <tuple of the configured state attributes>) (<input>)
        : <tuple of the state attributes after the update> * option dstate * bool

  * second component: what the slice assigns to `self.drift_state` (Some DDrift / Some DWarn / Some DNone), None when
    no assignment is executed - exactly the `od` that Lifecycle.update expects from a kernel's step_e;
  * third component ("bound"): false iff the slice reads a local variable on a path that has not assigned it (Python
    raises UnboundLocalError there; the Coq value of such a read is a default and must not be relied upon).  For the
    list / None / int-division constructs (STEPD, CUSUM) the same flag also becomes false when a list index is out of
    range (IndexError), a possibly-None attribute is used as a number (TypeError) or an int/int true division has a
    zero divisor (ZeroDivisionError);
  * classes configured with `raises` (CUSUM): a fourth component, true iff an explicit `raise` statement was reached
    (the first three components are then the values at the `raise`);
  * classes configured with `reset_slice` (CUSUM): a second function <Class>_reset_core (<parameters>) (st) :
    <state tuple> * bool, the statements that the `if self.drift_state == "drift":` prologue executes before and
    inside `self.reset()` (re-estimation + reset of the class's own attributes).

Canonical form: a let-chain in source order; `x = e` is `let x := e in`; an `if` without `return` inside is
`let '(v1, .., vk) := if c then .. else .. in` over the variables it assigns that are still needed (one variable:
`let v := if c then .. else v in`); an `if` that contains a `return` is `if c then <body; rest> else <orelse; rest>`.
Arithmetic keeps Python's evaluation order and association; an int operand of a float operation is converted with
`fofZ` where Python converts; `int(<bool>)` is a 0/1 value whose float conversion is `if b then f1 else f0`.

Anything outside the fragment raises Unsupported (exit code 3): the caller then reports the tie as not applicable.

usage: py2coq_scalar.py <repo root> <out.v> [Class ...]     (default: all configured classes)
       exit 0 = written, 3 = unsupported construct (message on stderr)
"""
import ast, copy, os, re, sys
from fractions import Fraction

# ------------------------------------------------------------------------------------------------------------------
# CONFIG (trusted): what each attribute / input is.  Types: "float" (F N), "int" (Z), "str" (string),
# "optfloat" (option (F N): None or a float).
#   params    read-only attributes set by __init__ from constructor arguments
#   counter   read-only int maintained by the lifecycle machine (value AFTER the increment made by super().update)
#   state     per-epoch attributes the slice may read and assign; their order is the order of the Coq tuple
#   input     what the slice receives:
#               ("float", "X")                   the method parameter X after _validate_input, read as ONE double
#                                                (the code holds it as a 1x1 numpy array; element-wise arithmetic on a
#                                                1x1 float64 array is IEEE double arithmetic on its element)
#               ("labels", "y_true", "y_pred")   the slice must start with `y_true, y_pred = y_true[0], y_pred[0]`;
#                                                afterwards the two names may only occur in `y_pred == y_true` /
#                                                `y_pred != y_true` (either order): the Coq input is the boolean
#                                                `correct` = the RESULT of y_pred == y_true, `!=` is `negb correct`
#   history   list attributes that only record what was computed: `self.<h>.append(<call-free expr>)` is skipped
#   lifecycle zero-argument `self.<m>()` calls that belong to the lifecycle machine (retraining_recs): skipped, as is
#             an `if <call-free test>:` whose whole body consists of skipped statements
# Further types (STEPD / CUSUM): "intlist" (list Z), "floatlist" (list (F N)), "optstr" (option string: None or a str).
#   oracles   [(kind, coq name)]: kind "norm_sf" = the value of `1 - <...>norm.cdf(x[, 0, 1])` / `<...>norm.sf(x[, 0, 1])`
#             (standard normal upper tail, scipy) is an ORACLE INPUT of the translated function: exactly one such call
#             site must occur in the slice; its argument x must be a float expression of the fragment but is NOT part
#             of the translated function - that the oracle is asked about the right statistic is the business of the
#             correspondence check (which recomputes the p-value from the model's statistic)
#   helpers   zero-argument methods of the class that only compute a number from the attributes (`x = self.<h>()` as a
#             whole right-hand side): their bodies are translated in place
#   small_ints  True: every int that takes part in a true division is a counter below 2**53, so that Python's
#             correctly rounded int / int quotient IS fdiv of the two conversions (refused without this flag)
#   raises    exception class names whose explicit `raise` is a terminal statement reported by a 4th result component
#   reset_slice  {"method": "reset"}: update() must START with `if self.drift_state == "drift": <stmts>; self.reset()`;
#             <stmts> followed by the statements of the class's own reset() (around its `super().reset()`, which belongs
#             to the lifecycle machine) become <Class>_reset_core
# ------------------------------------------------------------------------------------------------------------------
CONFIGS = {
    "PageHinkley": dict(
        file="menelaus/change_detection/page_hinkley.py", method="update",
        params=[("delta", "float"), ("threshold", "float"), ("burn_in", "int"), ("direction", "str")],
        counter="samples_since_reset",
        state=[("_max", "float"), ("_min", "float"), ("_sum", "float"), ("_mean", "float")],
        input=("float", "X"),
        history=["_change_scores", "_page_hinkley_values", "_page_hinkley_differences", "_theta_threshold",
                 "_drift_detected", "_maxes", "_mins", "_means"],
        lifecycle=[],
    ),
    "DDM": dict(
        file="menelaus/concept_drift/ddm.py", method="update",
        params=[("n_threshold", "int"), ("warning_scale", "float"), ("drift_scale", "float")],
        counter="samples_since_reset",
        state=[("_error_rate", "float"), ("_error_std", "float"), ("_error_rate_min", "float"), ("_error_std_min", "float")],
        input=("labels", "y_true", "y_pred"),
        history=[],
        lifecycle=["_increment_retraining_recs", "_initialize_retraining_recs"],
    ),
    "EDDM": dict(
        file="menelaus/concept_drift/eddm.py", method="update",
        params=[("n_threshold", "int"), ("warning_thresh", "float"), ("drift_thresh", "float")],
        counter="samples_since_reset",
        state=[("_n_errors", "int"), ("_index_error_curr", "int"), ("_index_error_last", "int"),
               ("_dist_mean", "float"), ("_dist_std", "float"), ("_max_numerator", "float"), ("_test_statistic", "optfloat")],
        input=("labels", "y_true", "y_pred"),
        history=[],
        lifecycle=["_increment_retraining_recs", "_initialize_retraining_recs"],
    ),
    # STEPD: state (s, r, window, statistic, p-value); input (prediction correct?, oracle value of 1 - norm.cdf(statistic)).
    # The ARGUMENT of the scipy call is not compared by this tie (see `oracles` above).
    "STEPD": dict(
        file="menelaus/concept_drift/stepd.py", method="update",
        params=[("window_size", "int"), ("alpha_warning", "float"), ("alpha_drift", "float")],
        counter="samples_since_reset",
        state=[("_s", "int"), ("_r", "int"), ("_window", "intlist"), ("_test_statistic", "optfloat"), ("_test_p", "optfloat")],
        input=("labels", "y_true", "y_pred"),
        oracles=[("norm_sf", "oracle_p")],
        helpers=["recent_accuracy", "past_accuracy", "overall_accuracy"],
        small_ints=True,
        history=[],
        lifecycle=["_increment_retraining_recs", "_initialize_retraining_recs"],
        runtime="lists",
    ),
    # CUSUM: target / sd_hat are constructor arguments AND state (None until estimated); _upper_bound / _lower_bound /
    # _stream are Python lists in Python order (oldest first); X is read as one double; np.mean / np.std of a list are
    # the MODELLED functions np_mean / np_std of coq/Pairwise.v (numpy's pairwise summation), not oracles.
    "CUSUM": dict(
        file="menelaus/change_detection/cusum.py", method="update",
        params=[("burn_in", "int"), ("delta", "float"), ("threshold", "float"), ("direction", "optstr")],
        counter="samples_since_reset",
        state=[("target", "optfloat"), ("sd_hat", "optfloat"), ("_upper_bound", "floatlist"), ("_lower_bound", "floatlist"),
               ("_stream", "floatlist")],
        input=("float", "X"),
        history=[],
        lifecycle=[],
        raises=["ValueError"],
        reset_slice=dict(method="reset"),
        runtime="lists",
    ),
}

STATE = {"drift": "DDrift", "warning": "DWarn", None: "DNone"}
COQTY = {"float": "F N", "int": "Z", "str": "string", "optfloat": "option (F N)", "bool": "bool", "bit": "bool",
         "intlist": "list Z", "floatlist": "list (F N)", "optstr": "option string"}
DEFAULT = {"float": "f0", "int": "0%Z", "bool": "false", "bit": "false", "intlist": "[]", "floatlist": "[]"}
LISTEL = {"intlist": "int", "floatlist": "float"}

PREAMBLE = """From Coq Require Import String.
From MV Require Import Base Num.

(** float(int(b)) for a Python bool b: 1.0 or 0.0 *)
Definition py_bit {N : Num} (b : bool) : F N := if b then f1 else f0.
(** int(b) *)
Definition py_bitZ (b : bool) : Z := if b then 1%Z else 0%Z.
"""

# run-time vocabulary of the classes with `runtime="lists"` (emitted only when such a class is translated)
PREAMBLE_LISTS = """
From MV Require Import Pairwise.
(** Python lists are Coq lists in Python order; [None]-able attributes are options *)
Definition py_len {A} (l : list A) : Z := Z.of_nat (length l).
(** l[i]: a negative index counts from the end; [py_idx_ok] = Python raises no IndexError *)
Definition py_idx_ok {A} (l : list A) (i : Z) : bool := ((- py_len l) <=? i)%Z && (i <? py_len l)%Z.
Definition py_get {A} (d : A) (l : list A) (i : Z) : A :=
  nth (Z.to_nat (if (i <? 0)%Z then (i + py_len l)%Z else i)) l d.
(** l[a:] *)
Definition py_from {A} (l : list A) (a : Z) : list A :=
  skipn (Z.to_nat (if (a <? 0)%Z then Z.max (py_len l + a) 0 else a)) l.
(** x is None *)
Definition py_none {A} (o : option A) : bool := match o with None => true | Some _ => false end.
(** a possibly-None attribute used as a number (the use is guarded by [negb (py_none o)] in the third component) *)
Definition py_ofloat {N : Num} (o : option (F N)) : F N := match o with Some v => v | None => f0 end.
(** o == c for a possibly-None o and a number c (None == c is False) *)
Definition py_oeqb {N : Num} (o : option (F N)) (c : F N) : bool := match o with Some v => feqb v c | None => false end.
(** o == "literal" for a possibly-None string *)
Definition py_ostr_eqb (o : option string) (s : string) : bool := match o with Some t => String.eqb t s | None => false end.
"""


class Unsupported(Exception):
    pass


class Restart(Exception):
    """a local turned out to need a definedness flag (or a float type): translate again"""


def fail(node, why):
    raise Unsupported(f"line {getattr(node, 'lineno', '?')}: {why}: {ast.dump(node)[:200] if isinstance(node, ast.AST) else node}")


def is_self_attr(n):
    return isinstance(n, ast.Attribute) and isinstance(n.value, ast.Name) and n.value.id == "self"


def is_super_call(st, name):
    """`super().<name>(...)` as an expression statement"""
    return (isinstance(st, ast.Expr) and isinstance(st.value, ast.Call) and isinstance(st.value.func, ast.Attribute)
            and st.value.func.attr == name and isinstance(st.value.func.value, ast.Call)
            and isinstance(st.value.func.value.func, ast.Name) and st.value.func.value.func.id == "super")


def is_docstring(st):
    return isinstance(st, ast.Expr) and isinstance(st.value, ast.Constant) and isinstance(st.value.value, str)


def call_free(e):
    return not any(isinstance(n, (ast.Call, ast.Await, ast.Yield, ast.YieldFrom, ast.NamedExpr, ast.Lambda)) for n in ast.walk(e))


def norm_call(c):
    """`<...>norm.<attr>(...)` (scipy.stats.norm.cdf, stats.norm.sf, norm.cdf ...): the attribute name, else None"""
    if isinstance(c, ast.Call) and isinstance(c.func, ast.Attribute):
        v = c.func.value
        if (isinstance(v, ast.Attribute) and v.attr == "norm") or (isinstance(v, ast.Name) and v.id == "norm"):
            return c.func.attr
    return None


def is_one(e):
    return isinstance(e, ast.Constant) and type(e.value) in (int, float) and e.value == 1


class Env:
    """what is known at a program point"""

    def __init__(self, definite=(), known=None):
        self.definite = set(definite)          # locals bound on every path reaching this point
        self.known = dict(known or {})         # optfloat attribute -> Coq variable holding its (non-None) value

    def copy(self):
        return Env(self.definite, self.known)


class Core:
    def __init__(self, cname, cfg, module, cls, fn):
        self.cname, self.cfg, self.cls, self.fn = cname, cfg, cls, fn
        self.params = dict(cfg["params"])
        self.state = dict(cfg["state"])
        self.state_order = [a for a, _ in cfg["state"]]
        self.counter = cfg["counter"]
        self.np_alias = {a.asname or a.name for st in module.body if isinstance(st, ast.Import) for a in st.names
                         if a.name in ("numpy", "math")}
        self.ltypes = {}                       # local -> type
        self.flagged = set()                   # locals that need a definedness flag
        self.promote = set()                   # locals holding an int literal on one path and a float on another: floats
        self.labels = ()
        self.inputs = []                       # (coq name, coq type)
        self.mode = "step"                     # "step": the slice after super().update; "reset": the reset slice
        self.helper_locals = None              # inside a helper method: the (renamed) locals of that method
        self.oracles = dict(cfg.get("oracles", []))
        self.reset_stmts = None
        self.slice = self.find_slice()

    def attr_type(self, a):
        return self.params.get(a) or self.state.get(a)

    def need_rt(self, node, what):
        if not self.cfg.get("runtime"):
            fail(node, f"{what} (only for classes configured with the list / None run-time vocabulary)")

    def method(self, name, node):
        fns = [f for f in self.cls.body if isinstance(f, ast.FunctionDef) and f.name == name]
        if len(fns) != 1 or fns[0].decorator_list:
            fail(node, f"method {name} of the class not found exactly once (undecorated)")
        a = fns[0].args
        if [x.arg for x in a.args] != ["self"] or a.vararg or a.kwarg or a.kwonlyargs or a.posonlyargs:
            fail(fns[0], f"method {name} takes arguments")
        return fns[0]

    # ---------------------------------------------------------------- slice
    def find_slice(self):
        body = self.fn.body
        idx = [i for i, st in enumerate(body) if is_super_call(st, self.cfg["method"])]
        if len(idx) != 1:
            fail(self.fn, f"expected exactly one top-level `super().{self.cfg['method']}(...)` statement, found {len(idx)}")
        pro, sl = body[:idx[0]], body[idx[0] + 1:]
        if self.cfg.get("reset_slice"):
            # update() starts with `if self.drift_state == "drift": <stmts>; self.reset()`
            k = next((i for i, st in enumerate(pro) if not is_docstring(st)), None)
            st = pro[k] if k is not None else None
            t = st.test if isinstance(st, ast.If) else None
            ok = (isinstance(t, ast.Compare) and len(t.ops) == 1 and isinstance(t.ops[0], ast.Eq) and is_self_attr(t.left)
                  and t.left.attr == "drift_state" and isinstance(t.comparators[0], ast.Constant)
                  and t.comparators[0].value == "drift" and not st.orelse and st.body)
            rname = self.cfg["reset_slice"]["method"]
            if ok:
                c = st.body[-1]
                ok = (isinstance(c, ast.Expr) and isinstance(c.value, ast.Call) and is_self_attr(c.value.func)
                      and c.value.func.attr == rname and not c.value.args and not c.value.keywords)
            if not ok:
                fail(st or self.fn, f'update() must start with `if self.drift_state == "drift": ...; self.{rname}()`')
            rm = self.method(rname, st)
            rbody = [x for x in rm.body if not is_docstring(x)]
            ridx = [i for i, x in enumerate(rbody) if is_super_call(x, rname)]
            if len(ridx) != 1:
                fail(rm, f"expected exactly one top-level `super().{rname}()` statement in {rname}(), found {len(ridx)}")
            self.reset_stmts = st.body[:-1] + rbody[:ridx[0]] + rbody[ridx[0] + 1:]
            pro = pro[:k] + pro[k + 1:]
        # the prologue is the lifecycle machine's business, but it must not touch what the slice computes with
        for n in ast.walk(ast.Module(body=pro, type_ignores=[])):
            tg = []
            if isinstance(n, ast.Assign):
                tg = n.targets
            elif isinstance(n, (ast.AugAssign, ast.AnnAssign)):
                tg = [n.target]
            for t in tg:
                for m in ast.walk(t):
                    if is_self_attr(m) and (m.attr in self.state or m.attr in self.params or m.attr == self.counter):
                        fail(n, f"the statements before super().update assign self.{m.attr}")
            if self.cfg.get("runtime") and isinstance(n, ast.Call) and isinstance(n.func, ast.Attribute) \
                    and is_self_attr(n.func.value) and n.func.value.attr in self.state:
                fail(n, f"the statements before super().update call a method of self.{n.func.value.attr}")
        inp = self.cfg["input"]
        if inp[0] == "float":
            args = [a.arg for a in self.fn.args.args]
            if inp[1] not in args:
                fail(self.fn, f"no parameter {inp[1]}")
            self.ltypes[inp[1]] = "float"
            self.inputs = [("v_" + inp[1], "F N")]
            self.pre_bound = {inp[1]}
        else:
            a, b = inp[1], inp[2]
            ok = False
            if sl and isinstance(sl[0], ast.Assign) and len(sl[0].targets) == 1 and isinstance(sl[0].targets[0], ast.Tuple) \
                    and isinstance(sl[0].value, ast.Tuple) and len(sl[0].targets[0].elts) == 2 and len(sl[0].value.elts) == 2:
                names = []
                for t, v in zip(sl[0].targets[0].elts, sl[0].value.elts):
                    if isinstance(t, ast.Name) and isinstance(v, ast.Subscript) and isinstance(v.value, ast.Name) \
                            and v.value.id == t.id and isinstance(v.slice, ast.Constant) and v.slice.value == 0 \
                            and type(v.slice.value) is int:
                        names.append(t.id)
                ok = sorted(names) == sorted([a, b])
            if not ok:
                fail(sl[0] if sl else self.fn, f"the slice must start with `{a}, {b} = {a}[0], {b}[0]`")
            sl = sl[1:]
            self.labels = (a, b)
            self.inputs = [("correct", "bool")]
            self.pre_bound = set()
        if self.oracles:
            sites = [n for n in ast.walk(ast.Module(body=sl, type_ignores=[])) if norm_call(n)]
            if len(sites) != len(self.oracles):
                fail(sites[1] if len(sites) > 1 else self.fn,
                     f"expected exactly {len(self.oracles)} call of a method of scipy's `norm` in the slice, found {len(sites)}")
            self.inputs += [(n, "F N") for _, n in self.cfg["oracles"]]
        return sl

    # ---------------------------------------------------------------- skipped statement shapes
    def skipped(self, st):
        if isinstance(st, ast.Pass):
            return True
        if is_docstring(st):
            return True                                                     # docstring / bare string
        if isinstance(st, ast.Expr) and isinstance(st.value, ast.Call):
            c = st.value
            if isinstance(c.func, ast.Attribute) and c.func.attr == "append" and is_self_attr(c.func.value) \
                    and c.func.value.attr in self.cfg["history"] and len(c.args) == 1 and not c.keywords and call_free(c.args[0]):
                return True                                                 # self.<history>.append(expr)
            if is_self_attr(c.func) and c.func.attr in self.cfg["lifecycle"] and not c.args and not c.keywords:
                return True                                                 # self._increment_retraining_recs()
            return False
        if isinstance(st, ast.If) and call_free(st.test) and st.body and all(self.skipped(s) for s in st.body) \
                and all(self.skipped(s) for s in st.orelse):
            return True                                                     # if <test>: <only skipped statements>
        return False

    def list_call(self, c, name, nargs):
        """`self.<configured list attribute>.<name>(<nargs arguments>)`: the attribute, else None"""
        if isinstance(c, ast.Call) and isinstance(c.func, ast.Attribute) and c.func.attr == name and is_self_attr(c.func.value) \
                and self.state.get(c.func.value.attr) in LISTEL and len(c.args) == nargs and not c.keywords:
            return c.func.value.attr
        return None

    def norm(self, st):
        """list-mutating method calls on a configured list attribute, written as the assignments they stand for:
        `self.l.append(e)` = `self.l = self.l + [e]`;  `[v =] self.l.pop(0)` = `v = self.l[0]; self.l = self.l[1:]`
        (no other reference to these lists exists in the slice, so rebinding and mutation are indistinguishable)"""
        def mk(src, **holes):
            node = ast.parse(src).body[0]
            for n in ast.walk(node):
                for f, v in ast.iter_fields(n):
                    if isinstance(v, ast.Name) and v.id in holes:
                        setattr(n, f, holes[v.id])
                    elif isinstance(v, list):
                        for i, x in enumerate(v):
                            if isinstance(x, ast.Name) and x.id in holes:
                                v[i] = holes[x.id]
            for n in ast.walk(node):
                ast.copy_location(n, st)
            return node
        if isinstance(st, ast.Expr):
            a = self.list_call(st.value, "append", 1)
            if a:
                return [mk(f"self.{a} = self.{a} + [HOLE]", HOLE=st.value.args[0])]
            a = self.list_call(st.value, "pop", 1)
            if a and isinstance(st.value.args[0], ast.Constant) and st.value.args[0].value == 0 and type(st.value.args[0].value) is int:
                return [mk(f"pop__{a} = self.{a}[0]"), mk(f"self.{a} = self.{a}[1:]")]
        if isinstance(st, ast.Assign) and len(st.targets) == 1 and isinstance(st.targets[0], ast.Name):
            a = self.list_call(st.value, "pop", 1)
            if a and isinstance(st.value.args[0], ast.Constant) and st.value.args[0].value == 0 and type(st.value.args[0].value) is int:
                return [mk(f"{st.targets[0].id} = self.{a}[0]"), mk(f"self.{a} = self.{a}[1:]")]
        return [st]

    def strip(self, stmts):
        out = []
        for st in stmts:
            if self.skipped(st):
                continue
            if isinstance(st, ast.If):
                st = ast.copy_location(ast.If(test=st.test, body=self.strip(st.body), orelse=self.strip(st.orelse)), st)
                out.append(st)
            else:
                out += self.norm(st)
        return out

    # ---------------------------------------------------------------- syntactic helpers
    @staticmethod
    def has_return(stmts):
        return any(isinstance(n, (ast.Return, ast.Raise)) for st in stmts for n in ast.walk(st))

    def target_key(self, t, node):
        if isinstance(t, ast.Name):
            if t.id in self.labels:
                fail(node, "assignment to a label input")
            return ("l", t.id)
        if is_self_attr(t):
            if t.attr == "drift_state":
                return ("d", "drift_state")
            if t.attr in self.state:
                return ("a", t.attr)
            fail(node, f"assignment to self.{t.attr}, which the configuration does not list as state")
        fail(node, "unsupported assignment target")

    def assigned(self, stmts):
        out = []
        for st in stmts:
            if isinstance(st, ast.Assign):
                if len(st.targets) != 1:
                    fail(st, "multiple assignment targets")
                k = self.target_key(st.targets[0], st)
            elif isinstance(st, ast.AugAssign):
                k = self.target_key(st.target, st)
            elif isinstance(st, ast.If):
                for k2 in self.assigned(st.body) + self.assigned(st.orelse):
                    if k2 not in out:
                        out.append(k2)
                continue
            elif isinstance(st, (ast.Return, ast.Raise)):
                continue
            else:
                fail(st, "unsupported statement")
            if k not in out:
                out.append(k)
        return out

    def reads(self, stmts):
        """locals read anywhere in the statements"""
        r = set()
        for st in stmts:
            for n in ast.walk(st):
                if isinstance(n, ast.Name) and isinstance(n.ctx, ast.Load):
                    r.add(n.id)
                if isinstance(n, ast.AugAssign) and isinstance(n.target, ast.Name):
                    r.add(n.target.id)
        return r

    # ---------------------------------------------------------------- names
    def cv(self, key):
        kind, v = key
        return {"l": "v_" + v, "a": "self_" + v, "d": "ds__", "b": "b_" + v, "o": "ok__"}[kind]

    def need_flag(self, v):
        if v not in self.flagged:
            self.flagged.add(v)
            raise Restart()

    @staticmethod
    def addg(g, cond):
        if cond not in g:
            g.append(cond)

    # ---------------------------------------------------------------- expressions: (coq text, type, guards)
    @staticmethod
    def is_lit(x):
        """an int literal (possibly negated) small enough to be converted exactly"""
        m = re.fullmatch(r"(\d+)%Z|\(- (\d+)%Z\)%Z", x[0]) if x[1] == "int" else None
        return bool(m) and int(m.group(1) or m.group(2)) < 2 ** 53

    def tofloat(self, x, node):
        c, t = x
        if t == "float":
            return c
        if t == "int":
            if c == "0%Z":
                return "f0"                     # float(0), float(1): the constants of Num
            if c == "1%Z":
                return "f1"
            return f"(fofZ {c})"
        if t == "bit":
            return f"(py_bit {c})"
        fail(node, f"a {t} where a number is needed")

    def toint(self, x, node):
        c, t = x
        if t == "int":
            return c
        if t == "bit":
            return f"(py_bitZ {c})"
        fail(node, f"a {t} where an int is needed")

    def elem(self, x, lty, node):
        """x as an element of a list of type lty"""
        if LISTEL[lty] == "int":
            return self.toint(x, node)
        if x[1] == "float" or self.is_lit(x) or x[1] == "int":
            # an int stored in a list of floats (`[0]`, `s_h = 0`) is read back by float operations only
            return self.tofloat(x, node)
        fail(node, f"a {x[1]} as an element of a list of floats")

    def lit_list(self, e, lty, env, g):
        return "[" + "; ".join(self.elem(self.ex(x, env, g), lty, e) for x in e.elts) + "]"

    def oracle_args(self, c, env, g):
        """the scipy call: first argument a float of the fragment (not translated further), loc = 0, scale = 1"""
        if not c.args or len(c.args) > 3:
            fail(c, "arguments of the oracle call")
        x = self.ex(c.args[0], env, g)
        if x[1] != "float":
            fail(c, "the argument of the oracle call is not a float")
        rest = list(zip(("loc", "scale"), c.args[1:])) + [(k.arg, k.value) for k in c.keywords]
        if len({k for k, _ in rest}) != len(rest):
            fail(c, "arguments of the oracle call")
        for k, v in rest:
            want = {"loc": 0, "scale": 1}.get(k)
            if want is None or not (isinstance(v, ast.Constant) and type(v.value) in (int, float) and v.value == want):
                fail(c, "the oracle is the STANDARD normal upper tail: loc = 0, scale = 1 only")

    def ex(self, e, env, g):
        """g: list collecting the conditions under which evaluating e raises no exception (b_<local>: the local is bound)"""
        if isinstance(e, ast.Constant):
            if type(e.value) is int:
                return (f"({e.value})%Z" if e.value < 0 else f"{e.value}%Z", "int")
            if type(e.value) is float and self.cfg.get("runtime") and e.value == e.value and abs(e.value) != float("inf"):
                # a double is m / 2^k exactly: integral values are conversions, the others an exact quotient
                fr = Fraction(e.value)
                m, d = fr.numerator, fr.denominator
                if abs(m) < 2 ** 53 and d <= 2 ** 60 and m >= 0:
                    num = self.tofloat((f"{m}%Z", "int"), e)
                    return (num if d == 1 else f"({num} / (fofZ {d}%Z))%num", "float")
            fail(e, "constant (only int literals are numbers of the fragment)")
        if isinstance(e, ast.Name):
            if e.id in self.labels:
                fail(e, "a label input outside `y_pred == y_true` / `y_pred != y_true`")
            if self.helper_locals is not None and e.id not in self.helper_locals:
                fail(e, "read of a name that is not a local of the helper method")
            if e.id not in self.ltypes:
                fail(e, "read of a name that is not assigned before")
            if e.id not in env.definite:
                self.need_flag(e.id) if e.id not in self.flagged else None
                self.addg(g, "b_" + e.id)
            return ("v_" + e.id, self.ltypes[e.id])
        if is_self_attr(e):
            a = e.attr
            if a == self.counter:
                if self.mode != "step":
                    fail(e, f"read of self.{a} in the reset slice")
                return ("self_" + a, "int")
            ty = self.attr_type(a)
            if ty is None:
                fail(e, f"read of self.{a}, which the configuration does not describe")
            if ty == "optfloat":
                if a in env.known:
                    return (env.known[a], "float")
                if not self.cfg.get("runtime"):
                    fail(e, f"read of self.{a}, which may be None here")
                self.addg(g, f"(negb (py_none self_{a}))")          # None used as a number: TypeError
                return (f"(py_ofloat self_{a})", "float")
            return ("self_" + a, ty)
        if isinstance(e, ast.Subscript):
            self.need_rt(e, "subscript")
            base = self.ex(e.value, env, g)
            if base[1] not in LISTEL:
                fail(e, f"subscript of a {base[1]}")
            if isinstance(e.slice, ast.Slice):
                if e.slice.lower is None or e.slice.upper is not None or e.slice.step is not None:
                    fail(e, "slice (only l[a:])")
                return (f"(py_from {base[0]} {self.toint(self.ex(e.slice.lower, env, g), e)})", base[1])
            i = self.toint(self.ex(e.slice, env, g), e)
            self.addg(g, f"(py_idx_ok {base[0]} {i})")                 # IndexError
            return (f"(py_get {DEFAULT[LISTEL[base[1]]]} {base[0]} {i})", LISTEL[base[1]])
        if isinstance(e, ast.UnaryOp):
            if isinstance(e.op, ast.Not):
                return (f"(negb {self.truth(e.operand, env, g)})", "bool")
            if isinstance(e.op, ast.USub):
                x = self.ex(e.operand, env, g)
                if x[1] == "float":
                    return (f"(fneg {x[0]})", "float")
                return (f"(- {self.toint(x, e)})%Z", "int")
            fail(e, "unary operator")
        if isinstance(e, ast.BinOp):
            if self.oracles and isinstance(e.op, ast.Sub) and is_one(e.left) and norm_call(e.right) == "cdf" \
                    and "norm_sf" in self.oracles:
                self.oracle_args(e.right, env, g)
                return (self.oracles["norm_sf"], "float")              # 1 - norm.cdf(x): oracle input
            if isinstance(e.op, ast.Add) and (isinstance(e.left, ast.List) or isinstance(e.right, ast.List)):
                self.need_rt(e, "list concatenation")
                if isinstance(e.left, ast.List):
                    fail(e, "list literal on the left of +")
                x = self.ex(e.left, env, g)
                if x[1] not in LISTEL:
                    fail(e, f"a {x[1]} + a list")
                return (f"({x[0]} ++ {self.lit_list(e.right, x[1], env, g)})", x[1])
            x, y = self.ex(e.left, env, g), self.ex(e.right, env, g)          # Python evaluates left to right
            if x[1] in LISTEL or y[1] in LISTEL:
                if isinstance(e.op, ast.Add) and x[1] == y[1]:
                    return (f"({x[0]} ++ {y[0]})", x[1])
                fail(e, "operator on lists")
            if isinstance(e.op, (ast.BitAnd, ast.BitOr)):
                if x[1] != "bool" or y[1] != "bool":
                    fail(e, "& / | of values that are not bools")
                return (f"({x[0]} {'&&' if isinstance(e.op, ast.BitAnd) else '||'} {y[0]})", "bool")   # both operands evaluated
            isf = "float" in (x[1], y[1])
            if isinstance(e.op, (ast.Add, ast.Sub, ast.Mult)):
                s = {ast.Add: "+", ast.Sub: "-", ast.Mult: "*"}[type(e.op)]
                if isf:
                    return (f"({self.tofloat(x, e)} {s} {self.tofloat(y, e)})%num", "float")
                return (f"({self.toint(x, e)} {s} {self.toint(y, e)})%Z", "int")
            if isinstance(e.op, ast.Div):
                if not isf:
                    if not self.cfg.get("small_ints"):
                        fail(e, "true division of two ints (correctly rounded exact quotient: not fdiv of the conversions in general)")
                    # ints below 2**53 (configuration): the correctly rounded quotient is fdiv of the exact conversions
                    self.addg(g, f"(negb ({self.toint(y, e)} =? 0)%Z)")    # ZeroDivisionError
                return (f"({self.tofloat(x, e)} / {self.tofloat(y, e)})%num", "float")
            if isinstance(e.op, ast.FloorDiv) and not isf:
                return (f"({self.toint(x, e)} / {self.toint(y, e)})%Z", "int")
            fail(e, "operator")
        if isinstance(e, ast.Compare):
            if len(e.ops) != 1:
                fail(e, "chained comparison")
            a, b, op = e.left, e.comparators[0], e.ops[0]
            if isinstance(a, ast.Name) and isinstance(b, ast.Name) and {a.id, b.id} == set(self.labels) and self.labels:
                if isinstance(op, ast.Eq):
                    return ("correct", "bool")
                if isinstance(op, ast.NotEq):
                    return ("(negb correct)", "bool")
                fail(e, "comparison of the labels other than == / !=")
            if isinstance(op, (ast.Is, ast.IsNot)):
                self.need_rt(e, "is / is not")
                if isinstance(b, ast.Constant) and b.value is None and is_self_attr(a) \
                        and self.attr_type(a.attr) in ("optfloat", "optstr"):
                    t = f"(py_none self_{a.attr})"
                    return (t if isinstance(op, ast.Is) else f"(negb {t})", "bool")
                fail(e, "is / is not (only `self.<optional attribute> is [not] None`)")
            if isinstance(b, ast.Constant) and isinstance(b.value, str):
                x = self.ex(a, env, g)
                if x[1] not in ("str", "optstr") or not isinstance(op, (ast.Eq, ast.NotEq)) or '"' in b.value or "\\" in b.value \
                        or not b.value.isascii():
                    fail(e, "string comparison")
                t = f'({"String.eqb" if x[1] == "str" else "py_ostr_eqb"} {x[0]} "{b.value}"%string)'
                return (t if isinstance(op, ast.Eq) else f"(negb {t})", "bool")
            if isinstance(op, (ast.Eq, ast.NotEq)) and is_self_attr(a) and self.attr_type(a.attr) == "optfloat" \
                    and a.attr not in env.known and self.cfg.get("runtime"):
                y = self.ex(b, env, g)                                   # None == number is False, no exception
                if not (y[1] == "float" or self.is_lit(y)):
                    fail(e, f"comparison of a possibly-None float with a {y[1]}")
                t = f"(py_oeqb self_{a.attr} {self.tofloat(y, e)})"
                return (t if isinstance(op, ast.Eq) else f"(negb {t})", "bool")
            x, y = self.ex(a, env, g), self.ex(b, env, g)
            if self.cfg.get("runtime"):
                # an int LITERAL is compared with a float as its exact conversion
                if x[1] == "float" and self.is_lit(y):
                    y = (self.tofloat(y, e), "float")
                elif y[1] == "float" and self.is_lit(x):
                    x = (self.tofloat(x, e), "float")
            if x[1] == "float" and y[1] == "float":
                p, q = x[0], y[0]
                t = {ast.Lt: f"({p} <? {q})%num", ast.LtE: f"({p} <=? {q})%num", ast.Gt: f"({q} <? {p})%num",
                     ast.GtE: f"({q} <=? {p})%num", ast.Eq: f"(feqb {p} {q})", ast.NotEq: f"(negb (feqb {p} {q}))"}.get(type(op))
            elif x[1] in ("int", "bit") and y[1] in ("int", "bit"):
                p, q = self.toint(x, e), self.toint(y, e)
                t = {ast.Lt: f"({p} <? {q})%Z", ast.LtE: f"({p} <=? {q})%Z", ast.Gt: f"({q} <? {p})%Z",
                     ast.GtE: f"({q} <=? {p})%Z", ast.Eq: f"({p} =? {q})%Z", ast.NotEq: f"(negb ({p} =? {q})%Z)"}.get(type(op))
            else:
                fail(e, f"comparison of a {x[1]} with a {y[1]} (Python compares an int with a float exactly)")
            return (t or fail(e, "comparison operator"), "bool")
        if isinstance(e, ast.BoolOp):
            vs = [self.ex(v, env, g) for v in e.values]
            if any(t != "bool" for _, t in vs):
                fail(e, "and / or of values that are not bools")
            # a later operand is only evaluated if needed; its reads of unbound locals are over-approximated (sound:
            # the flag can only become false more often)
            return ("(" + (" && " if isinstance(e.op, ast.And) else " || ").join(c for c, _ in vs) + ")", "bool")
        if isinstance(e, ast.Call):
            if self.oracles and norm_call(e) == "sf" and "norm_sf" in self.oracles:
                self.oracle_args(e, env, g)
                return (self.oracles["norm_sf"], "float")              # norm.sf(x): oracle input
            if e.keywords:
                fail(e, "keyword arguments")
            f = e.func
            isnp = isinstance(f, ast.Attribute) and isinstance(f.value, ast.Name) and f.value.id in self.np_alias and len(e.args) == 1
            if isnp and f.attr == "sqrt":
                x = self.ex(e.args[0], env, g)
                if x[1] != "float":
                    fail(e, "sqrt of something that is not a float")
                return (f"(fsqrt {x[0]})", "float")
            if isnp and f.attr in ("absolute", "abs", "fabs") and self.cfg.get("runtime"):
                x = self.ex(e.args[0], env, g)
                if x[1] != "float":
                    fail(e, "absolute value of something that is not a float")
                return (f"(fabs {x[0]})", "float")
            if isnp and f.attr in ("mean", "std") and self.cfg.get("runtime"):
                x = self.ex(e.args[0], env, g)
                if x[1] != "floatlist":
                    fail(e, f"np.{f.attr} of something that is not a list of floats")
                return (f"(np_{f.attr} {x[0]})", "float")               # coq/Pairwise.v: numpy's pairwise summation
            if isinstance(f, ast.Name) and f.id == "len" and len(e.args) == 1 and self.cfg.get("runtime"):
                x = self.ex(e.args[0], env, g)
                if x[1] not in LISTEL:
                    fail(e, f"len of a {x[1]}")
                return (f"(py_len {x[0]})", "int")
            if isinstance(f, ast.Name) and f.id == "int" and len(e.args) == 1:
                x = self.ex(e.args[0], env, g)
                if x[1] == "bool":
                    return (x[0], "bit")
                if x[1] in ("int", "bit"):
                    return x
                fail(e, "int() of something that is not a bool or an int")
            if isinstance(f, ast.Name) and f.id == "float" and len(e.args) == 1:
                x = self.ex(e.args[0], env, g)
                return (self.tofloat(x, e), "float")
            if isinstance(f, ast.Name) and f.id in ("max", "min") and len(e.args) == 2:
                x, y = self.ex(e.args[0], env, g), self.ex(e.args[1], env, g)
                if self.cfg.get("runtime"):
                    # max(0, y): the int literal is returned when y does not exceed it and is then used as a float
                    if self.is_lit(x) and y[1] == "float":
                        x = (self.tofloat(x, e), "float")
                    elif self.is_lit(y) and x[1] == "float":
                        y = (self.tofloat(y, e), "float")
                if x[1] != "float" or y[1] != "float":
                    fail(e, "max / min of values that are not both floats")
                return (f"(py{f.id} {x[0]} {y[0]})", "float")
            if isinstance(f, ast.Name) and f.id == "abs" and len(e.args) == 1:
                x = self.ex(e.args[0], env, g)
                if x[1] != "float":
                    fail(e, "abs of something that is not a float")
                return (f"(fabs {x[0]})", "float")
            fail(e, "call")
        fail(e, "expression")

    def truth(self, e, env, g):
        """truth value of e in `if e` / `not e`"""
        if isinstance(e, ast.BoolOp):
            return "(" + (" && " if isinstance(e.op, ast.And) else " || ").join(self.truth(v, env, g) for v in e.values) + ")"
        c, t = self.ex(e, env, g)
        if t in ("bool", "bit"):
            return c
        if t == "int":
            return f"(negb ({c} =? 0)%Z)"
        fail(e, f"truth value of a {t}")

    # ---------------------------------------------------------------- statements
    def guards(self, g, pad):
        self.nguards += len(g)
        return "".join(f"{pad}let ok__ := ok__ && {v} in\n" for v in g)

    def tuple_of(self, keys):
        return "(" + ", ".join(self.cv(k) for k in keys) + ")" if len(keys) != 1 else self.cv(keys[0])

    def block(self, stmts, env, term, live, ind):
        """Coq expression for `stmts` followed by the terminal `term` (a list of variable keys, or None = the result
        triple).  `live`: locals read after this block.  Returns the text; `env` is updated to the state at the end
        when the block falls through."""
        pad = "  " * ind
        if not stmts:
            return pad + (self.result() if term is None else self.tuple_of(term))
        st, rest = stmts[0], stmts[1:]
        if isinstance(st, ast.Return):
            if term is not None or self.mode != "step":
                fail(st, "internal: return inside a merged branch" if self.mode == "step" else "return in the reset slice")
            if st.value is not None and not (isinstance(st.value, ast.Constant) and st.value.value is None):
                fail(st, "return of a value")
            return pad + self.result()
        if isinstance(st, ast.Raise):
            if term is not None or self.mode != "step":
                fail(st, "internal: raise inside a merged branch" if self.mode == "step" else "raise in the reset slice")
            x = st.exc.func if isinstance(st.exc, ast.Call) else st.exc
            if not (isinstance(x, ast.Name) and x.id in self.cfg.get("raises", [])) or st.cause is not None:
                fail(st, "raise (only the exception classes listed in the configuration)")
            if isinstance(st.exc, ast.Call) and not all(isinstance(a, ast.Constant) for a in st.exc.args + [k.value for k in st.exc.keywords]):
                fail(st, "raise with computed arguments")
            return pad + self.result(exc="true")
        if isinstance(st, (ast.Assign, ast.AugAssign)):
            return self.assign(st, rest, env, term, live, ind)
        if isinstance(st, ast.If):
            g = []
            c = self.truth(st.test, env, g)
            head = self.guards(g, pad)
            if self.has_return([st]):
                if term is not None:
                    fail(st, "internal: return inside a merged branch")
                e1, e2 = env.copy(), env.copy()
                return (head + f"{pad}if {c}\n{pad}then\n{self.block(st.body + rest, e1, None, live, ind + 1)}\n"
                        f"{pad}else\n{self.block(st.orelse + rest, e2, None, live, ind + 1)}")
            if not rest and term is not None:
                # the continuation is just the terminal tuple: no merge needed
                e1, e2 = env.copy(), env.copy()
                t1 = self.block(st.body, e1, term, live, ind + 1)
                t2 = self.block(st.orelse, e2, term, live, ind + 1)
                self.join(env, e1, e2, st)
                return head + f"{pad}if {c}\n{pad}then\n{t1}\n{pad}else\n{t2}"
            after = self.reads(rest) | live
            keys = [k for k in self.assigned([st]) if k[0] != "l" or k[1] in after]
            keys += self.flag_keys(keys, env, st)
            live_in = after | {k[1] for k in keys if k[0] == "l"}
            for mk in (keys, keys + [("o", "")]):
                # second round: a branch reads a possibly unbound local, so the flag ok__ is merged as well
                e1, e2 = env.copy(), env.copy()
                n0 = self.nguards
                t1 = self.block(st.body, e1, mk, live_in, ind + 2)
                t2 = self.block(st.orelse, e2, mk, live_in, ind + 2)
                if self.nguards == n0:
                    break
            self.join(env, e1, e2, st)
            if not mk:
                return head + self.block(rest, env, term, live, ind)
            if len(mk) == 1:
                lhs = f"let {self.cv(mk[0])} :="
            else:
                lhs = f"let '{self.tuple_of(mk)} :="
            return (head + f"{pad}{lhs}\n{pad}  if {c}\n{pad}  then\n{t1}\n{pad}  else\n{t2} in\n"
                    + self.block(rest, env, term, live, ind))
        fail(st, "unsupported statement")

    def flag_keys(self, keys, env, st):
        """merged locals that are not bound on every path after the `if` carry their flag through the merge"""
        out = []
        for k in keys:
            if k[0] != "l" or k[1] in env.definite:
                continue
            e1, e2 = env.copy(), env.copy()
            d1 = self.def_after(st.body, e1.definite)
            d2 = self.def_after(st.orelse, e2.definite)
            if not (k[1] in d1 and k[1] in d2):
                if k[1] not in self.flagged:
                    self.need_flag(k[1])
                out.append(("b", k[1]))
        return out

    def def_after(self, stmts, definite):
        """locals definitely bound after the statements (no returns inside)"""
        d = set(definite)
        for st in stmts:
            if isinstance(st, ast.Assign) and isinstance(st.targets[0], ast.Name):
                d.add(st.targets[0].id)
            elif isinstance(st, ast.If):
                d |= self.def_after(st.body, d) & self.def_after(st.orelse, d)
        return d

    def join(self, env, e1, e2, st):
        env.definite = e1.definite & e2.definite
        for k in self.assigned([st]):
            if k[0] == "a":
                env.known.pop(k[1], None)      # the value variable bound inside a branch is not visible after it

    def helper(self, call, env, ind):
        """`self.<helper>()`: the body of the helper method, translated in place as an expression.  The method may only
        compute: locals (renamed <helper>__<name>), reads of attributes (their values at the call), one final `return e`."""
        name = call.func.attr
        fn = self.method(name, call)
        body = [copy.deepcopy(s) for s in fn.body if not is_docstring(s)]
        if not body or not isinstance(body[-1], ast.Return) or body[-1].value is None or self.has_return(body[:-1]):
            fail(fn, f"helper method {name}: the body must end with its only `return <expression>`")
        pref = name + "__"
        stored = {n.id for s in body for n in ast.walk(s) if isinstance(n, ast.Name) and isinstance(n.ctx, ast.Store)}
        for s in body:
            for n in ast.walk(s):
                if isinstance(n, ast.Name) and n.id in stored:
                    n.id = pref + n.id
        ret = ast.copy_location(ast.Assign(targets=[ast.Name(id=pref + "ret", ctx=ast.Store())], value=body[-1].value), body[-1])
        stmts = self.strip(body[:-1]) + [ret]
        if any(k[0] != "l" for k in self.assigned(stmts)):
            fail(fn, f"helper method {name} assigns an attribute")
        if self.helper_locals is not None:
            fail(call, "helper method called from a helper method")
        self.helper_locals = {pref + v for v in stored} | {pref + "ret"}
        try:
            for mk in ([("l", pref + "ret")], [("l", pref + "ret"), ("o", "")]):
                n0 = self.nguards
                t = self.block(stmts, Env(set(), env.known), mk, {pref + "ret"}, ind + 1)
                if self.nguards == n0:
                    break
        finally:
            self.helper_locals = None
        return t, (len(mk) == 2), self.ltypes[pref + "ret"]

    def assign(self, st, rest, env, term, live, ind):
        pad = "  " * ind
        aug = isinstance(st, ast.AugAssign)
        tgt = st.target if aug else st.targets[0]
        if not aug and len(st.targets) != 1:
            fail(st, "multiple assignment targets")
        key = self.target_key(tgt, st)
        g = []
        if key[0] == "d":
            if self.mode != "step":
                fail(st, "assignment to drift_state in the reset slice")
            if aug or not isinstance(st.value, ast.Constant) or st.value.value not in STATE or isinstance(st.value.value, bool):
                fail(st, 'drift_state may only be assigned "drift", "warning" or None')
            if not rest and term == [key]:
                return f"{pad}Some {STATE[st.value.value]}"
            return f"{pad}let ds__ := Some {STATE[st.value.value]} in\n" + self.block(rest, env, term, live, ind)
        hcall = (not aug and isinstance(st.value, ast.Call) and is_self_attr(st.value.func)
                 and st.value.func.attr in self.cfg.get("helpers", []) and not st.value.args and not st.value.keywords)
        if hcall:
            if key[0] != "l":
                fail(st, "a helper method call may only be assigned to a local")
            htext, hok, hty = self.helper(st.value, env, ind)
            val = (None, hty)
        elif aug:
            val = self.ex(ast.copy_location(ast.BinOp(left=ast.copy_location(
                ast.Name(id=tgt.id, ctx=ast.Load()) if isinstance(tgt, ast.Name)
                else ast.Attribute(value=ast.Name(id="self", ctx=ast.Load()), attr=tgt.attr, ctx=ast.Load()), st),
                op=st.op, right=st.value), st), env, g)
        elif isinstance(st.value, ast.Constant) and st.value.value is None:
            val = ("None", "none")
        elif isinstance(st.value, ast.List) and key[0] == "a" and self.state[key[1]] in LISTEL:
            self.need_rt(st, "list literal")
            val = (self.lit_list(st.value, self.state[key[1]], env, g), self.state[key[1]])
        else:
            val = self.ex(st.value, env, g)
        head = self.guards(g, pad)
        if key[0] == "l":
            if key[1] in self.promote and val[1] != "float":
                # a local that holds a float on another path: an int LITERAL assigned to it is used as that float
                if hcall or not self.is_lit(val):
                    fail(st, f"a computed {val[1]} assigned to the local {key[1]}, which holds floats elsewhere")
                val = (self.tofloat(val, st), "float")
            t = val[1]
            if t not in ("float", "int", "bool", "bit") + (("intlist", "floatlist") if self.cfg.get("runtime") else ()):
                fail(st, f"local of type {t}")
            if self.ltypes.setdefault(key[1], t) != t:
                if self.cfg.get("runtime") and {self.ltypes[key[1]], t} == {"int", "float"} and key[1] not in self.promote:
                    self.promote.add(key[1])
                    raise Restart()
                fail(st, f"variable {key[1]} changes type ({self.ltypes[key[1]]} / {t})")
            env.definite.add(key[1])
            if hcall:
                s = head + (f"{pad}let '(v_{key[1]}, ok__) :=\n{htext} in\n" if hok else f"{pad}let v_{key[1]} :=\n{htext} in\n")
            else:
                s = head + f"{pad}let v_{key[1]} := {val[0]} in\n"
            if key[1] in self.flagged:
                s += f"{pad}let b_{key[1]} := true in\n"
            return s + self.block(rest, env, term, live, ind)
        a, ty = key[1], self.state[key[1]]
        if ty == "optfloat":
            if val[1] == "none":
                env.known.pop(a, None)
                return head + f"{pad}let self_{a} := @None (F N) in\n" + self.block(rest, env, term, live, ind)
            v = self.tofloat(val, st)
            env.known[a] = f"self_{a}_v"
            return (head + f"{pad}let self_{a}_v := {v} in\n{pad}let self_{a} := Some self_{a}_v in\n"
                    + self.block(rest, env, term, live, ind))
        if ty == "float":
            # an int stored in a float attribute stays an int in Python; its later uses convert it exactly as fofZ does
            # only if every use is a float operation - refuse instead
            if val[1] != "float":
                fail(st, f"a {val[1]} assigned to the float attribute self.{a}")
            v = val[0]
        elif ty == "int":
            if val[1] not in ("int", "bit"):
                fail(st, f"a {val[1]} assigned to the int attribute self.{a}")
            v = self.toint(val, st)
        elif ty in LISTEL:
            if val[1] != ty:
                fail(st, f"a {val[1]} assigned to the list attribute self.{a} ({ty})")
            v = val[0]
        else:
            fail(st, f"assignment to the {ty} attribute self.{a}")
        if not rest and term == [key] and not head:
            return f"{pad}{v}"                      # `let x := e in x` written as `e`
        return head + f"{pad}let self_{a} := {v} in\n" + self.block(rest, env, term, live, ind)

    def result(self, exc="false"):
        st = "(" + ", ".join("self_" + a for a in self.state_order) + ")"
        if self.mode == "reset":
            return f"({st}, ok__)"
        if self.cfg.get("raises"):
            return f"({st}, ds__, ok__, {exc})"
        return f"({st}, ds__, ok__)"

    # ---------------------------------------------------------------- whole function
    def body_of(self, stmts, pre_bound, base_types):
        while True:
            self.ltypes = dict(base_types)
            self.nguards = 0
            try:
                body = self.block(stmts, Env(pre_bound), None, set(), 1)
                break
            except Restart:
                continue
        pre = f"  let '({', '.join('self_' + a for a in self.state_order)}) := st in\n"
        if self.mode == "step":
            pre += "  let ds__ := @None dstate in\n"
        pre += "  let ok__ := true in\n"
        for v in sorted(self.flagged):
            if v in self.ltypes:
                pre += f"  let v_{v} := {DEFAULT[self.ltypes[v]]} in (* unbound until assigned *)\n  let b_{v} := false in\n"
        return pre + body

    def emit(self):
        stmts = self.strip(self.slice)
        cfg = self.cfg
        body = self.body_of(stmts, self.pre_bound, dict(self.ltypes))
        params = "".join(f" (self_{a} : {COQTY[t]})" for a, t in cfg["params"])
        st_ty = " * ".join(COQTY[t] for _, t in cfg["state"])
        inputs = "".join(f" ({n} : {t})" for n, t in self.inputs)
        out = (f"(* BEGIN {self.cname} *)\n"
               f"(** {cfg['file']} : {self.cname}.{cfg['method']}, statements after super().{cfg['method']}(...) *)\n"
               f"Definition {self.cname}_core {{N : Num}}{params} (self_{self.counter} : Z)\n"
               f"    (st : {st_ty}){inputs}\n    : ({st_ty}) * option dstate * bool{' * bool' if cfg.get('raises') else ''} :=\n{body}.\n")
        if self.reset_stmts is not None:
            self.mode, self.flagged, self.promote = "reset", set(), set()
            rname = cfg["reset_slice"]["method"]
            body = self.body_of(self.strip(self.reset_stmts), set(), {})
            out += (f"\n(** {cfg['file']} : what {self.cname}.{cfg['method']} executes when drift_state == \"drift\": the statements before\n"
                    f"    self.{rname}(), then those of {self.cname}.{rname}() (its super().{rname}() is the lifecycle machine) *)\n"
                    f"Definition {self.cname}_reset_core {{N : Num}}{params}\n"
                    f"    (st : {st_ty})\n    : ({st_ty}) * bool :=\n{body}.\n")
        return out + f"(* END {self.cname} *)\n"


def translate(root, classes):
    out = ["(** GENERATED by tools/py2coq_scalar.py from " + ", ".join(CONFIGS[c]["file"] for c in classes)
           + " - do not edit. *)", PREAMBLE + (PREAMBLE_LISTS if any(CONFIGS[c].get("runtime") == "lists" for c in classes) else "")]
    for cname in classes:
        cfg = CONFIGS[cname]
        path = os.path.join(root, cfg["file"])
        try:
            module = ast.parse(open(path).read())
        except (OSError, SyntaxError) as e:
            raise Unsupported(f"{path}: {e}")
        cls = [n for n in module.body if isinstance(n, ast.ClassDef) and n.name == cname]
        if len(cls) != 1:
            raise Unsupported(f"{path}: class {cname} not found exactly once")
        fns = [f for f in cls[0].body if isinstance(f, ast.FunctionDef) and f.name == cfg["method"]]
        if len(fns) != 1 or fns[0].decorator_list:
            raise Unsupported(f"{path}: method {cname}.{cfg['method']} not found exactly once (undecorated)")
        try:
            out.append(Core(cname, cfg, module, cls[0], fns[0]).emit())
        except Unsupported as e:
            raise Unsupported(f"{cfg['file']}: {e}")
    return "\n".join(out)


if __name__ == "__main__":
    classes = sys.argv[3:] or list(CONFIGS)
    try:
        for c in classes:
            if c not in CONFIGS:
                raise Unsupported(f"no configuration for class {c}")
        text = translate(sys.argv[1], classes)
    except Unsupported as e:
        print(f"unsupported: {e}", file=sys.stderr)
        sys.exit(3)
    open(sys.argv[2], "w").write(text)
    print("translated:", " ".join(classes))
