#!/venv/bin/python
"""Regenerates section 8 of DESIGN.md (between the AS-BUILT markers) from notes/as_built_head.md, tools/claims.json,
known_findings.json, seeded/*/meta.json and evidence/*.json."""
import json, os, glob
V = "/verif"
head = open(f"{V}/notes/as_built_head.md").read()
claims = json.load(open(f"{V}/tools/claims.json"))["checks"]
props = {json.loads(l)["id"]: json.loads(l) for l in open(f"{V}/properties.jsonl")}
out = [head, "### 8.3 Per property: what is proved, what is validated, what is partial\n"]
for pid in sorted(props):
    c = claims.get(pid)
    out.append(f"**{pid} — {props[pid]['title']}**\n")
    if not c:
        out.append("*not claimed yet* (see MANIFEST.json not_applicable)\n"); continue
    out.append(c["text"] + "\n")
    out.append(f"*Trusted / assumed:* {c['note']}\n")
    ev = f"{V}/evidence/{pid}.json"
    if os.path.exists(ev):
        e = json.load(open(ev)); cv = e["coverage"]
        out.append(f"*Last quick run:* {cv.get('evaluations')} cases ({cv.get('distinct_nontrivial')} distinct non-trivial), "
                   f"{cv.get('model_evaluated_cases')} evaluated by the model, {len(cv.get('theorems', []))} theorems checked, {e['wall_s']} s."
                   + (f" Build notes: `notes/design_{pid}.md`." if os.path.exists(f"{V}/notes/design_{pid}.md") else "") + "\n")
kf = json.load(open(f"{V}/known_findings.json"))["findings"]
out.append("### 8.4 Genuine defects found (all confirmed against the real code)\n")
out.append("Repaired by one unguarded `fix:` commit each in `/repo` (existing suite, unedited: 165 passed):\n")
for f in kf:
    if f["status"] == "fixed":
        out.append(f"* `{f['commit']}` ({f['property']}) {f['what']}")
out.append("\nRecorded, not repaired (printed as `KNOWN-FINDING` on every run, matched by signature):\n")
for f in kf:
    if f["status"] == "open":
        out.append(f"* **{f['id']}** ({f['property']}): {f['what']}")
out.append("\n### 8.5 Seeded changes and which checks catch them\n")
out.append("Each change was written by a fresh sub-agent that saw only the property text and a scratch worktree, and was kept only after "
           "`tools/confirm_mutant.sh` confirmed in another scratch worktree that the unedited suite passes with it and that its demonstration "
           "fails with it and passes without it. `tools/mutant_matrix.py` applies each to a scratch worktree (`VERIF_REPO`), runs the listed checks and records the verdicts.\n")
out.append("| seeded change | breaks | what it needs to manifest | checks run → verdict |\n|---|---|---|---|")
for d in sorted(glob.glob(f"{V}/seeded/*/meta.json")):
    m = json.load(open(d))
    need = " ".join(str(m.get("needs_to_manifest", "")).split())[:230]
    runs = m.get("checks_run") or {}
    if m.get("retired"):
        out.append(f"| {m['seed']} | {m['property']} | {need} | retired: {m['retired'][:260]} |"); continue
    verdict = "; ".join(f"{t}: " + ("**missed**" if v["exit"] == 0 else "caught (" + ", ".join(k.replace('property-fails-on-implementation', 'failing input').replace('correspondence-broken', 'correspondence') for k in v["kinds"]) + ")") for t, v in runs.items()) or "not run yet"
    out.append(f"| {m['seed']} | {m['property']} | {need} | {verdict} |")
out.append("")
tail = f"{V}/notes/as_built_tail.md"
if os.path.exists(tail):
    out.append(open(tail).read())
txt = "\n".join(out)
s = open(f"{V}/DESIGN.md").read()
B, E = "<!-- AS-BUILT BEGIN -->", "<!-- AS-BUILT END -->"
if B in s:
    s = s[:s.index(B)] + B + "\n" + txt + "\n" + s[s.index(E):]
else:
    i = s.index("## Appendix A.")
    s = s[:i] + B + "\n" + txt + "\n" + E + "\n\n---------------------------------------------------------------------------\n\n" + s[i:]
open(f"{V}/DESIGN.md", "w").write(s)
print("section 8:", len(txt.splitlines()), "lines")
