#!/bin/bash
# usage: tools/confirm_mutant.sh <srcdir with patch.diff demo.py notes.txt> <seed-name> <property>
# Confirms in a scratch worktree: suite passes with the patch, demo fails with it and passes without; then stores it.
set -u
SRC=$1; NAME=$2; PROP=$3
WT=$(mktemp -d /tmp/mutchk.XXXXXX)
git -C /repo worktree add -q --detach "$WT/repo" HEAD || exit 2
cleanup(){ git -C /repo worktree remove --force "$WT/repo" 2>/dev/null; rm -rf "$WT"; }
trap cleanup EXIT
cd "$WT/repo"
PYTHONPATH="$WT/repo" /venv/bin/python "$SRC/demo.py" >"$WT/demo_clean.out" 2>&1; D0=$?
git apply "$SRC/patch.diff" || { echo "REJECT $NAME: patch does not apply"; exit 1; }
PYTHONPATH="$WT/repo" /venv/bin/python "$SRC/demo.py" >"$WT/demo_mut.out" 2>&1; D1=$?
/venv/bin/python -m pytest -q -p no:cacheprovider -x tests/menelaus >"$WT/suite.out" 2>&1; S=$?
SUM=$(grep -E "passed|failed" "$WT/suite.out" | tail -1)
if [ $D0 -eq 0 ] && [ $D1 -ne 0 ] && [ $S -eq 0 ]; then
  mkdir -p /verif/seeded/$NAME
  cp "$SRC/patch.diff" "$SRC/demo.py" /verif/seeded/$NAME/
  NOTES=$(cat "$SRC/notes.txt" 2>/dev/null | head -c 1500)
  /venv/bin/python - "$NAME" "$PROP" "$SUM" "$NOTES" "$(tail -3 $WT/demo_mut.out | head -c 600)" <<'PY'
import json,sys
name,prop,summ,notes,demo=sys.argv[1:6]
json.dump({"seed":name,"property":prop,"needs_to_manifest":notes,
  "confirmed":{"suite_with_patch":summ,"demo_without_patch":"exit 0","demo_with_patch":"exit 1: "+demo,
   "how":"tools/confirm_mutant.sh in a scratch git worktree of /repo HEAD (removed afterwards)"},
  "detected_by":None},open(f"/verif/seeded/{name}/meta.json","w"),indent=1)
PY
  echo "KEEP $NAME ($SUM)"
else
  echo "REJECT $NAME: demo_clean=$D0 demo_mut=$D1 suite=$S $SUM"; tail -3 "$WT/demo_clean.out"
fi
