#!/venv/bin/python
"""Applies every seeded change to /repo, runs the listed checks, undoes it, and records which checks
report a violation (seeded/<id>/meta.json: detected_by) plus a summary table seeded/MATRIX.md."""
import json, os, subprocess, sys, re
V = "/verif"
checks_for = json.load(open(f"{V}/tools/mutant_targets.json")) if os.path.exists(f"{V}/tools/mutant_targets.json") else {}
claimed = [c["property_id"] for c in json.load(open(f"{V}/MANIFEST.json"))["checks"]]
only = sys.argv[1:]
rows = []
# a scratch worktree of /repo HEAD: /repo itself is never touched (other work may be using it)
WT = f"/tmp/mutmatrix_wt.{os.getpid()}"
subprocess.run(["git", "-C", "/repo", "worktree", "remove", "--force", WT], capture_output=True)
subprocess.run(["git", "-C", "/repo", "worktree", "add", "-q", "--detach", WT, "HEAD"], check=True)
for name in sorted(os.listdir(f"{V}/seeded")):
    d = f"{V}/seeded/{name}"
    if not os.path.isdir(d) or (only and name not in only):
        continue
    meta = json.load(open(f"{d}/meta.json"))
    if meta.get("retired"):
        continue
    targets = [meta["property"]] if os.environ.get("MATRIX_TAG") else (checks_for.get(name) or [meta["property"]])
    targets = [t for t in targets if t in claimed]
    r = subprocess.run(["git", "-C", WT, "apply", f"{d}/patch.diff"], capture_output=True, text=True)
    if r.returncode != 0:
        rows.append((name, meta["property"], "patch no longer applies", {})); continue
    det = {}
    try:
        for t in targets:
            env = dict(os.environ, VERIF_NO_EVIDENCE="1", VERIF_SKIP_BUILD="1", VERIF_REPO=WT)
            p = subprocess.run([f"{V}/vcheck", t], capture_output=True, text=True, env=env, timeout=1800)
            lines = [l for l in p.stdout.splitlines() if l.startswith("VIOLATION")]
            kinds = re.findall(r"\[(property-fails-on-implementation|correspondence-broken|proof-broken|correspondence-not-evaluable)\]", p.stdout)
            det[t] = {"exit": p.returncode, "violations": len(lines), "kinds": sorted(set(kinds))}
    finally:
        subprocess.run(["git", "-C", WT, "checkout", "--", "."], check=True)
    tag = os.environ.get("MATRIX_TAG")      # e.g. "seed7": an additional run under another VERIF_SEED, recorded beside the main verdict
    if tag:
        meta.setdefault("other_runs", {})[tag] = {t: v["exit"] for t, v in det.items()}
    else:
        meta["detected_by"] = {t: v for t, v in det.items() if v["exit"] != 0}
        meta["checks_run"] = det
    json.dump(meta, open(f"{d}/meta.json", "w"), indent=1)
    rows.append((name, meta["property"], "", det))
subprocess.run(["git", "-C", "/repo", "worktree", "remove", "--force", WT], capture_output=True)
# MATRIX.md always lists every seeded change (from the meta.json files), not only the ones just run
with open(f"{V}/seeded/MATRIX.md", "w") as f:
    f.write("| seeded change | property | check | result |\n|---|---|---|---|\n")
    for name in sorted(os.listdir(f"{V}/seeded")):
        mp = f"{V}/seeded/{name}/meta.json"
        if not os.path.exists(mp):
            continue
        m = json.load(open(mp))
        if m.get("retired"):
            f.write(f"| {name} | {m['property']} | - | retired (see meta.json) |\n"); continue
        for t, v in (m.get("checks_run") or {}).items():
            res = "MISSED" if v["exit"] == 0 else f"caught ({', '.join(v['kinds']) or 'violation'})"
            f.write(f"| {name} | {m['property']} | {t} | {res} |\n")
print(open(f"{V}/seeded/MATRIX.md").read()[-600:])
